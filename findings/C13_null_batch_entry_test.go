package v2

// Demonstration of a C13 defect repaired by a fix: commit (run in package api/v2): POST /api/v2/alerts with a batch
// that contains a null entry made the handler panic (the generated validation skips null elements), so the valid
// alerts of the same batch were not stored and the client saw a dropped connection.

import (
	"context"
	"net/http"
	"net/http/httptest"
	"strings"
	"testing"
	"time"

	"github.com/prometheus/client_golang/prometheus"
	"github.com/prometheus/common/model"
	"github.com/prometheus/common/promslog"

	"github.com/prometheus/alertmanager/config"
	"github.com/prometheus/alertmanager/eventrecorder"
	"github.com/prometheus/alertmanager/provider/mem"
)

func TestFindingC13NullBatchEntry(t *testing.T) {
	cfg, err := config.Load("route:\n  receiver: r\nreceivers:\n- name: r\n")
	if err != nil {
		t.Fatal(err)
	}
	ctx, cancel := context.WithCancel(context.Background())
	defer cancel()
	alerts, err := mem.NewAlerts(ctx, time.Hour, 0, nil, promslog.NewNopLogger(), eventrecorder.NopRecorder(), prometheus.NewRegistry(), nil)
	if err != nil {
		t.Fatal(err)
	}
	defer alerts.Close()
	api, err := NewAPI(alerts, nil, nil, nil, nil, promslog.NewNopLogger(), prometheus.NewRegistry())
	if err != nil {
		t.Fatal(err)
	}
	api.Update(cfg, func(context.Context, model.LabelSet) {})
	srv := httptest.NewServer(api.Handler)
	defer srv.Close()

	resp, err := http.Post(srv.URL+"/api/v2/alerts", "application/json", strings.NewReader(`[null, {"labels":{"alertname":"valid"}}]`))
	if err != nil {
		t.Fatalf("the handler did not answer (panic in the handler?): %v", err)
	}
	resp.Body.Close()
	if resp.StatusCode != http.StatusBadRequest {
		t.Fatalf("status %d, want 400 for a batch with an invalid (null) entry", resp.StatusCode)
	}
	n := 0
	it := alerts.GetPending()
	for a := range it.Next() {
		if a.Data.Labels["alertname"] == "valid" {
			n++
		}
	}
	it.Close()
	if n != 1 {
		t.Fatalf("the valid alert of the batch was stored %d times, want once", n)
	}
}
