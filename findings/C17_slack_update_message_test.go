package config

// Demonstration of a C17 defect repaired by a fix: commit (run in package config): a Slack receiver that uses
// update_message with a bot token (app_token, no api_url - the documented way) made Load panic with a nil pointer
// dereference in SlackConfig.UnmarshalYAML.

import "testing"

func TestFindingC17SlackUpdateMessage(t *testing.T) {
	in := "receivers:\n- name: s\n  slack_configs:\n  - channel: '#a'\n    app_token: xoxb-1\n    update_message: true\nroute:\n  receiver: s\n"
	defer func() {
		if r := recover(); r != nil {
			t.Fatalf("Load panicked: %v", r)
		}
	}()
	if _, err := Load(in); err != nil {
		t.Fatalf("bot-token receiver with update_message refused: %v", err)
	}
	// a webhook URL is still refused
	bad := "receivers:\n- name: s\n  slack_configs:\n  - channel: '#a'\n    api_url: https://hooks.slack.com/services/x\n    update_message: true\nroute:\n  receiver: s\n"
	if _, err := Load(bad); err == nil {
		t.Fatalf("update_message with a webhook api_url accepted")
	}
}
