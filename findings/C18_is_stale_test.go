package limit

// Demonstration of the C18 defect repaired by the fix: commit (run in package limit): IsStale looked only at the
// last slot of the binary heap, which is not the item with the latest expiry.

import (
	"testing"
	"time"
)

func TestFindingC18IsStale(t *testing.T) {
	now := time.Now()
	b := NewBucket[string](3)
	b.Upsert("a", now.Add(-time.Hour))
	b.Upsert("b", now.Add(time.Hour))
	b.Upsert("c", now.Add(-time.Hour))
	if b.IsStale() {
		t.Fatalf("bucket holding b (expires in 1h) is reported stale after Upsert(a,-1h), Upsert(b,+1h), Upsert(c,-1h): the limiter would drop it and admit alerts beyond the limit")
	}
}
