package config

// Demonstration of a C17 defect repaired by a fix: commit (run in package config): a global slack_app_token together
// with a global slack_api_url_file made Load panic (nil SlackAPIURL dereferenced in the "at most one of" check)
// instead of returning that error.

import "testing"

func TestFindingC17GlobalSlackTokenAndURLFile(t *testing.T) {
	in := "global:\n  slack_app_token: xoxb-1\n  slack_api_url_file: /tmp/slack_url\nreceivers:\n- name: s\nroute:\n  receiver: s\n"
	defer func() {
		if r := recover(); r != nil {
			t.Fatalf("Load panicked: %v", r)
		}
	}()
	if _, err := Load(in); err == nil {
		t.Fatalf("app token together with an API URL file accepted")
	}
}
