package config

// Demonstration of the C17 defect repaired by the fix: commit (run in package config): a routes list with a null
// entry decodes to a nil *Route and Load panicked (nil pointer dereference in checkReceiver) instead of failing.

import "testing"

func TestFindingC17NullRoute(t *testing.T) {
	for _, in := range []string{
		"route:\n  receiver: a\n  routes: [null]\nreceivers:\n  - name: a\n",
		"route:\n  receiver: a\n  routes:\n    - \n    - receiver: a\nreceivers:\n  - name: a\n",
		"route:\n  receiver: a\n  routes:\n    - receiver: a\n      routes: [~]\nreceivers:\n  - name: a\n",
	} {
		func() {
			defer func() {
				if r := recover(); r != nil {
					t.Errorf("Load panicked on %q: %v", in, r)
				}
			}()
			if _, err := Load(in); err == nil {
				t.Errorf("Load accepted a routing tree with a nil route: %q", in)
			}
		}()
	}
}
