package notify

// Demonstration of the C20 defect repaired by the fix: commit (run in package notify):
// 40 four-byte runes are 160 bytes > 100, but only 40 runes < 97: r[:97] was out of range.

import (
	"strings"
	"testing"
)

func TestFindingC20TruncateInBytes(t *testing.T) {
	s := strings.Repeat("\U0001D11E", 40)
	out, truncated := TruncateInBytes(s, 100)
	if !truncated || len(out) > 100 {
		t.Fatalf("got %d bytes, truncated=%v", len(out), truncated)
	}
}
