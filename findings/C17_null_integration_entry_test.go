package config

// Demonstration of a C17 defect repaired by a fix: commit (run in package config): a null entry in slack_configs,
// opsgenie_configs, wechat_configs or rocketchat_configs was completed from the global settings only in a loop
// variable; the receiver kept the nil pointer and LoadFile panicked in resolveFilepaths.

import (
	"os"
	"path/filepath"
	"testing"
)

func TestFindingC17NullIntegrationEntry(t *testing.T) {
	for name, in := range map[string]string{
		"slack":      "global:\n  slack_api_url: https://hooks.slack.com/services/x\nreceivers:\n- name: s\n  slack_configs:\n  - \nroute:\n  receiver: s\n",
		"opsgenie":   "global:\n  opsgenie_api_key: k\nreceivers:\n- name: s\n  opsgenie_configs:\n  - \nroute:\n  receiver: s\n",
		"rocketchat": "global:\n  rocketchat_token: a\n  rocketchat_token_id: b\nreceivers:\n- name: s\n  rocketchat_configs:\n  - \nroute:\n  receiver: s\n",
	} {
		t.Run(name, func(t *testing.T) {
			f := filepath.Join(t.TempDir(), "am.yml")
			if err := os.WriteFile(f, []byte(in), 0o644); err != nil {
				t.Fatal(err)
			}
			defer func() {
				if r := recover(); r != nil {
					t.Fatalf("LoadFile panicked: %v", r)
				}
			}()
			c, err := LoadFile(f)
			if err != nil {
				return // refusing the null entry would be fine too
			}
			for _, r := range c.Receivers {
				for _, x := range r.SlackConfigs {
					if x == nil {
						t.Fatalf("accepted configuration holds a nil Slack config")
					}
				}
				for _, x := range r.OpsGenieConfigs {
					if x == nil {
						t.Fatalf("accepted configuration holds a nil OpsGenie config")
					}
				}
				for _, x := range r.RocketchatConfigs {
					if x == nil {
						t.Fatalf("accepted configuration holds a nil Rocket.Chat config")
					}
				}
			}
		})
	}
}
