package silence

// Demonstration of the C02 defect (run in package silence): a silence that expired on this instance and is then
// revived by a late replicated edit of the same id (later UpdatedAt, end in the future) is stored and reported
// active by Query, but Silencer.Mutes keeps answering "not muted": Merge did not bump the store version nor move
// the id in the version index, so the per-alert cache (empty id list at the current version) takes the fast path.

import (
	"context"
	"testing"
	"time"

	"github.com/prometheus/client_golang/prometheus"
	"github.com/prometheus/common/model"
	"github.com/prometheus/common/promslog"
	"google.golang.org/protobuf/proto"
	"google.golang.org/protobuf/types/known/timestamppb"

	"github.com/prometheus/alertmanager/eventrecorder"
	pb "github.com/prometheus/alertmanager/silence/silencepb"
)

func TestFindingC02MergeRevive(t *testing.T) {
	s, err := New(Options{Retention: time.Hour, Metrics: prometheus.NewRegistry()})
	if err != nil {
		t.Fatal(err)
	}
	s.SetBroadcast(func([]byte) {})
	silencer := NewSilencer(s, promslog.NewNopLogger(), eventrecorder.NopRecorder())
	ctx := context.Background()
	lset := model.LabelSet{"job": "x"}
	now := time.Now().UTC()

	sil := &pb.Silence{
		MatcherSets: []*pb.MatcherSet{{Matchers: []*pb.Matcher{{Type: pb.Matcher_EQUAL, Name: "job", Pattern: "x"}}}},
		StartsAt:    timestamppb.New(now.Add(-time.Minute)),
		EndsAt:      timestamppb.New(now.Add(time.Hour)),
	}
	if err := s.Set(ctx, sil); err != nil {
		t.Fatal(err)
	}
	if !silencer.Mutes(ctx, lset) {
		t.Fatal("setup: active silence does not mute")
	}
	if err := s.Expire(ctx, sil.Id); err != nil {
		t.Fatal(err)
	}
	time.Sleep(5 * time.Millisecond)
	if silencer.Mutes(ctx, lset) {
		t.Fatal("setup: expired silence still mutes")
	}
	// the edit another instance accepted while this one was partitioned: same id, later UpdatedAt, longer end
	stored, _ := s.getSilence(sil.Id)
	edit := proto.Clone(stored).(*pb.Silence)
	edit.EndsAt = timestamppb.New(now.Add(2 * time.Hour))
	edit.UpdatedAt = timestamppb.New(time.Now().UTC().Add(time.Second))
	b, err := marshalMeshSilence(&pb.MeshSilence{Silence: edit, ExpiresAt: timestamppb.New(now.Add(3 * time.Hour))})
	if err != nil {
		t.Fatal(err)
	}
	if err := s.Merge(b); err != nil {
		t.Fatal(err)
	}
	act, _, err := s.Query(ctx, QState(SilenceStateActive), QMatches(lset))
	if err != nil {
		t.Fatal(err)
	}
	if len(act) != 1 {
		t.Fatalf("setup: expected the revived silence to be stored and active, Query returned %d", len(act))
	}
	if !silencer.Mutes(ctx, lset) {
		t.Fatalf("Query reports silence %s active and matching %v, but Mutes says the alert is not muted", sil.Id, lset)
	}
}
