package inhibit

// Demonstration of the C03 defect repaired by the fix: commit (run in package inhibit):
// two firing sources with equal labels; the longer-lived one (indexed) is then resolved by an update;
// the target must stay inhibited by the other source, which still fires.

import (
	"testing"
	"time"

	"github.com/prometheus/common/model"

	amcommoncfg "github.com/prometheus/alertmanager/config/common"
	"github.com/prometheus/alertmanager/pkg/labels"
	"github.com/prometheus/alertmanager/types"
)

func TestFindingC03InhibitIndex(t *testing.T) {
	src, _ := labels.NewMatcher(labels.MatchEqual, "sev", "crit")
	tgt, _ := labels.NewMatcher(labels.MatchEqual, "sev", "warn")
	r := NewInhibitRule(amcommoncfg.InhibitRule{SourceMatchers: []*labels.Matcher{src}, TargetMatchers: []*labels.Matcher{tgt}, Equal: []string{"c"}})
	now := time.Now()
	mk := func(inst string, end time.Time) *types.Alert {
		return &types.Alert{Alert: model.Alert{Labels: model.LabelSet{"sev": "crit", "c": "1", "inst": model.LabelValue(inst)}, StartsAt: now.Add(-time.Hour), EndsAt: end}, UpdatedAt: now}
	}
	feed := func(a *types.Alert) {
		if err := r.scache.Set(a); err != nil {
			t.Fatal(err)
		}
		r.updateIndex(a)
	}
	target := model.LabelSet{"sev": "warn", "c": "1"}
	feed(mk("a", now.Add(10*time.Minute)))
	feed(mk("b", now.Add(20*time.Minute)))
	if _, ok := r.hasEqual(target, false, now); !ok {
		t.Fatal("target not inhibited although two sources fire")
	}
	feed(mk("b", now.Add(-time.Second))) // b resolves; a still fires
	if _, ok := r.hasEqual(target, false, now); !ok {
		t.Fatal("target no longer inhibited although source a still fires")
	}
}
