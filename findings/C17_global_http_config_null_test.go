package config

// Demonstration of a C17 defect repaired by a fix: commit (run in package config): an empty `http_config:` under
// `global` made the global HTTP client configuration nil; a Slack (or MS Teams v2) receiver without its own
// http_config copies the global one by dereferencing it, and Load panicked.

import "testing"

func TestFindingC17GlobalHTTPConfigNull(t *testing.T) {
	in := "global:\n  http_config:\n  slack_api_url: https://hooks.slack.com/services/x\nreceivers:\n- name: s\n  slack_configs:\n  - channel: '#a'\nroute:\n  receiver: s\n"
	defer func() {
		if r := recover(); r != nil {
			t.Fatalf("Load panicked: %v", r)
		}
	}()
	c, err := Load(in)
	if err != nil {
		t.Fatalf("unexpected error: %v", err)
	}
	if c.Receivers[0].SlackConfigs[0].HTTPConfig == nil {
		t.Fatalf("receiver left without an HTTP client configuration")
	}
}
