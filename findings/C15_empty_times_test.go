package timeinterval

// Demonstration of the C15 defect repaired by the fix: commit (run in package timeinterval): a field that is
// present but empty (times: [] gives a non-nil empty slice) matched no instant although an empty field matches all.

import (
	"testing"
	"time"
)

func TestFindingC15EmptyTimes(t *testing.T) {
	ti := TimeInterval{Times: []TimeRange{}, Weekdays: []WeekdayRange{}, DaysOfMonth: []DayOfMonthRange{}, Months: []MonthRange{}, Years: []YearRange{}}
	at := time.Date(2024, 2, 29, 12, 30, 0, 0, time.UTC)
	if !ti.ContainsTime(at) {
		t.Fatalf("time interval with explicitly empty fields does not contain %v: an empty field must match everything", at)
	}
}
