package cluster

// Demonstration of the C19 defect repaired by the fix: commit (run in package cluster):
// a full-state exchange whose first part fails to merge must still merge the following parts.

import (
	"errors"
	"testing"

	"github.com/prometheus/client_golang/prometheus"
	"github.com/prometheus/common/promslog"
	"google.golang.org/protobuf/proto"

	"github.com/prometheus/alertmanager/cluster/clusterpb"
)

type findingState struct {
	fail   bool
	merged int
}

func (s *findingState) MarshalBinary() ([]byte, error) { return nil, nil }
func (s *findingState) Merge(b []byte) error {
	if s.fail {
		return errors.New("malformed payload")
	}
	s.merged++
	return nil
}

func TestFindingC19MergeRemoteState(t *testing.T) {
	bad, good := &findingState{fail: true}, &findingState{}
	p := &Peer{states: map[string]State{"sil": bad, "nfl": good}, stopc: make(chan struct{})}
	d := newDelegate(promslog.NewNopLogger(), prometheus.NewRegistry(), p, 3)
	buf, err := proto.Marshal(&clusterpb.FullState{Parts: []*clusterpb.Part{{Key: "sil", Data: []byte("garbage")}, {Key: "nfl", Data: []byte("ok")}}})
	if err != nil {
		t.Fatal(err)
	}
	d.MergeRemoteState(buf, true)
	if good.merged != 1 {
		t.Fatalf("the well-formed part after a malformed one was not merged (merged=%d)", good.merged)
	}
}
