package dispatch

// Demonstration of the C14 defect repaired by the fix: commit (run in package dispatch):
// two updates of one alert reach aggrGroup.insert in the wrong order (as two ingestion workers can deliver them);
// before the fix the older version overwrote the newer one.

import (
	"context"
	"testing"
	"time"

	"github.com/prometheus/common/model"
	"github.com/prometheus/common/promslog"

	"github.com/prometheus/alertmanager/alert"
	"github.com/prometheus/alertmanager/eventrecorder"
)

func TestFindingC14InsertOrder(t *testing.T) {
	r := &Route{RouteOpts: DefaultRouteOpts}
	ag := newAggrGroup(context.Background(), model.LabelSet{}, r, nil, eventrecorder.NopRecorder(), promslog.NewNopLogger(), nil)
	now := time.Now()
	lbl := model.LabelSet{"alertname": "x"}
	older := &alert.Alert{Alert: model.Alert{Labels: lbl, StartsAt: now.Add(-time.Hour), EndsAt: now.Add(time.Hour)}, UpdatedAt: now}
	newer := &alert.Alert{Alert: model.Alert{Labels: lbl, StartsAt: now.Add(-time.Hour), EndsAt: now.Add(-time.Minute)}, UpdatedAt: now.Add(time.Second)}
	// the worker holding the newer version wins the race, the older one arrives afterwards
	ag.insert(context.Background(), newer)
	ag.insert(context.Background(), older)
	got, err := ag.alerts.Get(lbl.Fingerprint())
	if err != nil {
		t.Fatal(err)
	}
	if !got.UpdatedAt.Equal(newer.UpdatedAt) {
		t.Fatalf("group holds the older version (UpdatedAt %v) although a newer one (%v) was already applied", got.UpdatedAt, newer.UpdatedAt)
	}
}
