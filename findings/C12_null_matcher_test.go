package v2

// Demonstration of a C12 defect repaired by a fix: commit (run in package api/v2): POST /api/v2/silences with a null
// entry in the matcher list made the handler panic (the generated validation skips null elements) instead of
// rejecting the invalid silence.

import (
	"context"
	"net/http"
	"net/http/httptest"
	"strings"
	"testing"
	"time"

	"github.com/prometheus/client_golang/prometheus"
	"github.com/prometheus/common/model"
	"github.com/prometheus/common/promslog"

	"github.com/prometheus/alertmanager/config"
	"github.com/prometheus/alertmanager/eventrecorder"
	"github.com/prometheus/alertmanager/provider/mem"
	"github.com/prometheus/alertmanager/silence"
)

func TestFindingC12NullMatcher(t *testing.T) {
	cfg, err := config.Load("route:\n  receiver: r\nreceivers:\n- name: r\n")
	if err != nil {
		t.Fatal(err)
	}
	ctx, cancel := context.WithCancel(context.Background())
	defer cancel()
	alerts, err := mem.NewAlerts(ctx, time.Hour, 0, nil, promslog.NewNopLogger(), eventrecorder.NopRecorder(), prometheus.NewRegistry(), nil)
	if err != nil {
		t.Fatal(err)
	}
	defer alerts.Close()
	sils, err := silence.New(silence.Options{Retention: time.Hour, Logger: promslog.NewNopLogger(), Metrics: prometheus.NewRegistry()})
	if err != nil {
		t.Fatal(err)
	}
	api, err := NewAPI(alerts, nil, nil, sils, nil, promslog.NewNopLogger(), prometheus.NewRegistry())
	if err != nil {
		t.Fatal(err)
	}
	api.Update(cfg, func(context.Context, model.LabelSet) {})
	srv := httptest.NewServer(api.Handler)
	defer srv.Close()

	body := `{"matchers":[null],"startsAt":"2030-01-01T00:00:00Z","endsAt":"2030-01-02T00:00:00Z","createdBy":"a","comment":"b"}`
	resp, err := http.Post(srv.URL+"/api/v2/silences", "application/json", strings.NewReader(body))
	if err != nil {
		t.Fatalf("the handler did not answer (panic in the handler?): %v", err)
	}
	resp.Body.Close()
	if resp.StatusCode != http.StatusBadRequest {
		t.Fatalf("status %d, want 400 for a silence with a null matcher", resp.StatusCode)
	}
	res, _, err := sils.Query(ctx)
	if err != nil || len(res) != 0 {
		t.Fatalf("a silence was stored (%d) or the query failed (%v)", len(res), err)
	}
}
