package nflog

// Demonstration of the C11 defect repaired by the fix: commit (run in package nflog, Linux):
// a snapshot write that fails (file size limit) used to be renamed over the last good snapshot,
// and the next start then refused the truncated file.

import (
	"os"
	"os/signal"
	"path/filepath"
	"syscall"
	"testing"
	"time"

	"github.com/prometheus/client_golang/prometheus"

	"github.com/prometheus/alertmanager/nflog/nflogpb"
)

func TestFindingC11PartialSnapshot(t *testing.T) {
	dir := t.TempDir()
	snap := filepath.Join(dir, "nflog")
	l, err := New(Options{Retention: time.Hour, Metrics: prometheus.NewRegistry()})
	if err != nil {
		t.Fatal(err)
	}
	for i := 0; i < 5; i++ {
		if err := l.Log(&nflogpb.Receiver{GroupName: "g", Integration: "i", Idx: uint32(i)}, "key", []uint64{1, 2, 3}, nil, nil, 0); err != nil {
			t.Fatal(err)
		}
	}
	run := func() {
		stopc := make(chan struct{})
		close(stopc)
		l.Maintenance(time.Hour, snap, stopc, nil) // stop at once: runs the final maintenance with a snapshot
	}
	run()
	good, err := os.ReadFile(snap)
	if err != nil || len(good) == 0 {
		t.Fatalf("no good snapshot: %v", err)
	}
	// make the next snapshot write fail after 10 bytes
	signal.Ignore(syscall.SIGXFSZ)
	var old syscall.Rlimit
	if err := syscall.Getrlimit(syscall.RLIMIT_FSIZE, &old); err != nil {
		t.Skip(err)
	}
	if err := syscall.Setrlimit(syscall.RLIMIT_FSIZE, &syscall.Rlimit{Cur: 10, Max: old.Max}); err != nil {
		t.Skip(err)
	}
	run()
	syscall.Setrlimit(syscall.RLIMIT_FSIZE, &old)
	now, err := os.ReadFile(snap)
	if err != nil {
		t.Fatal(err)
	}
	if len(now) != len(good) {
		t.Fatalf("the good %d-byte snapshot was replaced by a partial %d-byte file", len(good), len(now))
	}
	f, err := os.Open(snap)
	if err != nil {
		t.Fatal(err)
	}
	defer f.Close()
	if _, err := New(Options{Retention: time.Hour, SnapshotReader: f, Metrics: prometheus.NewRegistry()}); err != nil {
		t.Fatalf("restart refuses its own snapshot: %v", err)
	}
}
