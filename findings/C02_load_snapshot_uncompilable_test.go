package silence

// Demonstration of the C02/C12 defect repaired by the fix: commit (run in package silence):
// a snapshot record whose matcher does not compile stayed in the state map without being indexed,
// so it was stored but invisible to the version-index walk of Query and of GC (never collected).

import (
	"bytes"
	"testing"
	"time"

	"github.com/prometheus/client_golang/prometheus"
	"google.golang.org/protobuf/types/known/timestamppb"

	pb "github.com/prometheus/alertmanager/silence/silencepb"
)

func TestFindingC02LoadSnapshotUncompilable(t *testing.T) {
	past := time.Now().Add(-240 * time.Hour)
	ms := &pb.MeshSilence{
		Silence: &pb.Silence{
			Id:          "bad",
			MatcherSets: []*pb.MatcherSet{{Matchers: []*pb.Matcher{{Type: pb.Matcher_REGEXP, Name: "a", Pattern: "("}}}},
			StartsAt:    timestamppb.New(past),
			EndsAt:      timestamppb.New(past.Add(time.Hour)),
			UpdatedAt:   timestamppb.New(past),
		},
		ExpiresAt: timestamppb.New(past.Add(2 * time.Hour)),
	}
	b, err := marshalMeshSilence(ms)
	if err != nil {
		t.Fatal(err)
	}
	s, err := New(Options{SnapshotReader: bytes.NewReader(b), Retention: time.Hour, Metrics: prometheus.NewRegistry()})
	if err != nil {
		t.Fatal(err)
	}
	if _, err := s.GC(); err != nil {
		t.Fatal(err)
	}
	s.mtx.RLock()
	defer s.mtx.RUnlock()
	if len(s.st) != len(s.vi) {
		t.Fatalf("state holds %d silences but the version index lists %d: the uncompilable silence is stored yet never collected", len(s.st), len(s.vi))
	}
}
