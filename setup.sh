#!/bin/sh
# Build the verifier (offline; x/tools v0.29.0 from the module cache, go1.25.0 toolchain from the module cache).
set -e
cd "$(dirname "$0")/govc"
TC="${GOVC_GOROOT:-$HOME/go/pkg/mod/golang.org/toolchain@v0.0.1-go1.25.0.linux-amd64}"
[ -x "$TC/bin/go" ] || TC=/root/go/pkg/mod/golang.org/toolchain@v0.0.1-go1.25.0.linux-amd64
GO=go
[ -x "$TC/bin/go" ] && GO="$TC/bin/go"
mkdir -p ../bin
GOFLAGS=-mod=mod GOPROXY=off GOSUMDB=off GOTOOLCHAIN=local "$GO" build -o ../bin/govc .
echo "govc built with $($GO version)"
