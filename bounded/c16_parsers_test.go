package compat

// Bounded stand-in for the string-level clauses of C16 (labelled bounded, never counted as proved):
// exhaustive over all strings up to a length bound over a small alphabet, and all matchers whose name and value
// are such strings. Run in package matcher/compat through `go test -overlay` by `govc check --prop C16`.

import (
	"encoding/json"
	"fmt"
	"os"
	"reflect"
	"strconv"
	"testing"
	"unicode/utf8"

	"github.com/prometheus/common/model"
	"github.com/prometheus/common/promslog"

	"github.com/prometheus/alertmanager/matcher/parse"
	"github.com/prometheus/alertmanager/pkg/labels"
)

var c16Alphabet = []string{"a", "_", "1", "é", "🙂", " ", "\"", "\\", "n", "{", "}", ",", "=", "!", "~", "'", "`", " ", "　", "\n", "\t", "\uFFFD", "\u200B"}

func c16Strings(maxLen int, f func(string)) {
	var rec func(prefix string, n int)
	rec = func(prefix string, n int) {
		f(prefix)
		if n == maxLen {
			return
		}
		for _, c := range c16Alphabet {
			rec(prefix+c, n+1)
		}
	}
	rec("", 0)
}

func TestBoundedC16(t *testing.T) {
	strLen, _ := strconv.Atoi(os.Getenv("GOVC_C16_STRLEN"))
	if strLen == 0 {
		strLen = 3
	}
	nvLen, _ := strconv.Atoi(os.Getenv("GOVC_C16_NVLEN"))
	if nvLen == 0 {
		nvLen = 2
	}
	var failures []string
	fail := func(f string, a ...any) {
		if len(failures) < 20 {
			failures = append(failures, fmt.Sprintf(f, a...))
		}
	}
	l := promslog.NewNopLogger()
	fbM, fbMs := FallbackMatcherParser(l), FallbackMatchersParser(l)
	u8M, clM := UTF8MatcherParser(l), ClassicMatcherParser(l)
	u8Ms, clMs := UTF8MatchersParser(l), ClassicMatchersParser(l)
	nStrings, nMatchers := 0, 0
	same := func(a, b *labels.Matcher) bool {
		return a != nil && b != nil && a.Type == b.Type && a.Name == b.Name && a.Value == b.Value
	}
	// (1) totality and fallback agreement on arbitrary inputs
	c16Strings(strLen, func(s string) {
		nStrings++
		func() {
			defer func() {
				if r := recover(); r != nil {
					fail("panic on input %q: %v", s, r)
				}
			}()
			nm, nerr := parse.Matcher(s)
			cm, cerr := labels.ParseMatcher(s)
			fm, ferr := fbM(s, "bounded")
			braces := len(s) > 0 && (s[0] == '{' || s[len(s)-1] == '}')
			switch {
			case braces:
				if ferr == nil {
					fail("fallback accepted braces in single matcher %q", s)
				}
			case nerr != nil && cerr != nil:
				if ferr == nil {
					fail("fallback accepted %q rejected by both parsers", s)
				}
			case nerr != nil:
				if ferr != nil || !same(fm, cm) {
					fail("input %q accepted only by the classic parser is not accepted with the classic result in fallback mode", s)
				}
			case cerr == nil && !reflect.DeepEqual(nm, cm):
				if ferr != nil || !same(fm, cm) {
					fail("parsers disagree on %q and fallback does not return the classic result", s)
				}
			default:
				if ferr != nil || !same(fm, nm) {
					fail("fallback result for %q differs from the common/UTF-8 result", s)
				}
			}
			// the same selection rule for matcher lists
			nms, nmerr := parse.Matchers(s)
			cms, cmerr := labels.ParseMatchers(s)
			fms, fmerr := fbMs(s, "bounded")
			sameList := func(a, b labels.Matchers) bool {
				if len(a) != len(b) {
					return false
				}
				for i := range a {
					if !same(a[i], b[i]) {
						return false
					}
				}
				return true
			}
			switch {
			case nmerr != nil && cmerr != nil:
				if fmerr == nil {
					fail("fallback accepted list %q rejected by both parsers", s)
				}
			case nmerr != nil:
				if fmerr != nil || !sameList(fms, cms) {
					fail("list %q accepted only by the classic parser is not accepted with the classic result in fallback mode", s)
				}
			case cmerr == nil && !reflect.DeepEqual(nms, labels.Matchers(cms)):
				if fmerr != nil || !sameList(fms, cms) {
					fail("parsers disagree on list %q and fallback does not return the classic result", s)
				}
			default:
				if fmerr != nil || !sameList(fms, nms) {
					fail("fallback result for list %q differs from the common/UTF-8 result", s)
				}
			}
		}()
	})
	// (2) print/parse round trip
	vLen, _ := strconv.Atoi(os.Getenv("GOVC_C16_VLEN"))
	if vLen == 0 {
		vLen = nvLen
	}
	var names, values []string
	c16Strings(nvLen, func(s string) { names = append(names, s) })
	c16Strings(vLen, func(s string) { values = append(values, s) })
	for _, name := range names {
		if name == "" || !utf8.ValidString(name) {
			continue
		}
		for _, value := range values {
			for _, typ := range []labels.MatchType{labels.MatchEqual, labels.MatchNotEqual, labels.MatchRegexp, labels.MatchNotRegexp} {
				m, err := labels.NewMatcher(typ, name, value)
				if err != nil {
					continue
				}
				nMatchers++
				func() {
					defer func() {
						if r := recover(); r != nil {
							fail("panic on matcher %v %q %q: %v", typ, name, value, r)
						}
					}()
					text := m.String()
					if got, err := u8M(text, "bounded"); err != nil || !same(got, m) {
						fail("UTF-8 mode: %q (from name %q value %q type %v) does not parse back: %v", text, name, value, typ, err)
					}
					if got, err := fbM(text, "bounded"); err != nil || !same(got, m) {
						fail("fallback mode: %q (from name %q value %q type %v) does not parse back: %v", text, name, value, typ, err)
					}
					if model.LabelName(name).IsValidLegacy() {
						if got, err := clM(text, "bounded"); err != nil || !same(got, m) {
							fail("classic mode: %q (from name %q value %q type %v) does not parse back: %v", text, name, value, typ, err)
						}
					}
					list := labels.Matchers{m, m}.String()
					if got, err := fbMs(list, "bounded"); err != nil || len(got) != 2 || !same(got[0], m) || !same(got[1], m) {
						fail("fallback mode: list %q does not parse back: %v", list, err)
					}
					if got, err := u8Ms(list, "bounded"); err != nil || len(got) != 2 || !same(got[0], m) || !same(got[1], m) {
						fail("UTF-8 mode: list %q does not parse back: %v", list, err)
					}
					if model.LabelName(name).IsValidLegacy() {
						if got, err := clMs(list, "bounded"); err != nil || len(got) != 2 || !same(got[0], m) || !same(got[1], m) {
							fail("classic mode: list %q does not parse back: %v", list, err)
						}
					}
				}()
			}
		}
	}
	out, _ := json.Marshal(map[string]any{"strings": nStrings, "matchers": nMatchers, "alphabet": c16Alphabet, "max_string_len": strLen, "max_name_len": nvLen, "max_value_len": vLen, "failures": failures})
	fmt.Printf("GOVC-BOUNDED %s\n", out)
	if len(failures) > 0 {
		t.Fatalf("%d failures, first: %s", len(failures), failures[0])
	}
}
