package notify

// Bounded stand-in for C20 (run in package notify): the truncation helpers are string algorithms; string contents are
// uninterpreted in the deductive proofs, so "never splits a character" and the exact size bound are checked here by
// exhaustive execution of the real functions: all strings up to a length bound over an alphabet with 1-, 2-, 3- and
// 4-byte characters, all limits 0..maxN. Labelled bounded; never counted as proved.

import (
	"encoding/json"
	"fmt"
	"os"
	"strconv"
	"strings"
	"testing"
	"unicode/utf8"
)

func TestBoundedC20Truncate(t *testing.T) {
	maxLen, maxN := 5, 24
	if v, err := strconv.Atoi(os.Getenv("GOVC_C20_STRLEN")); err == nil {
		maxLen = v
	}
	if v, err := strconv.Atoi(os.Getenv("GOVC_C20_MAXN")); err == nil {
		maxN = v
	}
	alphabet := []string{"a", "é", "…", "€", "\U0001D11E"}
	cases := 0
	var rec func(prefix string, depth int)
	check := func(s string) {
		for n := 0; n <= maxN; n++ {
			cases++
			got, tr := TruncateInBytes(s, n)
			if tr != (len(s) > n) {
				t.Fatalf("TruncateInBytes(%q, %d): truncated flag %v, but the input has %d bytes", s, n, tr, len(s))
			}
			if !tr && got != s {
				t.Fatalf("TruncateInBytes(%q, %d) = %q: a string that fits was altered", s, n, got)
			}
			if len(got) > n && n >= 0 {
				t.Fatalf("TruncateInBytes(%q, %d) = %q has %d bytes", s, n, got, len(got))
			}
			if !utf8.ValidString(got) {
				t.Fatalf("TruncateInBytes(%q, %d) = %q splits a character", s, n, got)
			}
			if tr && n > 3 && !(strings.HasSuffix(got, "…") && strings.HasPrefix(s, strings.TrimSuffix(got, "…"))) {
				t.Fatalf("TruncateInBytes(%q, %d) = %q is not a prefix of the input followed by the marker", s, n, got)
			}
			if tr && n > 3 {
				// maximal: one more character of the input would not fit
				rest := strings.TrimPrefix(s, strings.TrimSuffix(got, "…"))
				_, w := utf8.DecodeRuneInString(rest)
				if len(got)+w <= n {
					t.Fatalf("TruncateInBytes(%q, %d) = %q drops a character that still fits", s, n, got)
				}
			}
			gr, trr := TruncateInRunes(s, n)
			nr := utf8.RuneCountInString(s)
			if trr != (nr > n) {
				t.Fatalf("TruncateInRunes(%q, %d): truncated flag %v, but the input has %d characters", s, n, trr, nr)
			}
			if !trr && gr != s {
				t.Fatalf("TruncateInRunes(%q, %d) = %q: a string that fits was altered", s, n, gr)
			}
			if utf8.RuneCountInString(gr) > n || !utf8.ValidString(gr) {
				t.Fatalf("TruncateInRunes(%q, %d) = %q has %d characters / invalid UTF-8", s, n, gr, utf8.RuneCountInString(gr))
			}
			if trr && utf8.RuneCountInString(gr) != n {
				t.Fatalf("TruncateInRunes(%q, %d) = %q: a truncated result must use the whole limit", s, n, gr)
			}
			if trr && n > 3 && !(strings.HasSuffix(gr, "…") && strings.HasPrefix(s, strings.TrimSuffix(gr, "…"))) {
				t.Fatalf("TruncateInRunes(%q, %d) = %q is not a prefix of the input followed by the marker", s, n, gr)
			}
		}
	}
	rec = func(prefix string, depth int) {
		check(prefix)
		if depth == maxLen {
			return
		}
		for _, c := range alphabet {
			rec(prefix+c, depth+1)
		}
	}
	rec("", 0)
	b, _ := json.Marshal(map[string]any{"strings_up_to_len": maxLen, "limits_up_to": maxN, "alphabet": alphabet, "cases": cases})
	fmt.Printf("GOVC-BOUNDED %s\n", b)
}
