package config

// Bounded stand-in for C17 "loading never panics" (run in package config): the YAML decoder turns a null list entry or
// a null mapping value into a nil pointer / zero value, which validation code written for well-formed trees may
// dereference (a genuine defect of this kind was repaired, see known_findings.txt). Every fixture under testdata that
// parses as YAML is taken as a tree; for every sequence in it one variant with a null element prepended and one with
// the first element replaced by null is loaded, and for every mapping value one variant with that value set to null.
// Load must return (config or error) without panicking, and an accepted configuration must survive what LoadFile
// (resolveFilepaths) and the status API (String) do with it. Labelled bounded; never counted as proved.

import (
	"encoding/json"
	"fmt"
	"os"
	"path/filepath"
	"reflect"
	"runtime/debug"
	"strings"
	"testing"

	"gopkg.in/yaml.v2"
)

func TestBoundedC17NullEntries(t *testing.T) {
	files, _ := filepath.Glob("testdata/*.yml")
	variants, panics, accepted := 0, 0, 0
	for _, f := range files {
		b, err := os.ReadFile(f)
		if err != nil {
			continue
		}
		var tree any
		if yaml.Unmarshal(b, &tree) != nil {
			continue
		}
		// enumerate positions: path-indexed mutation by counting
		var count func(n any) int
		count = func(n any) int {
			c := 0
			switch x := n.(type) {
			case []any:
				c += 2
				for _, e := range x {
					c += count(e)
				}
			case map[any]any:
				for _, v := range x {
					c += 1 + count(v)
				}
			}
			return c
		}
		total := count(tree)
		for k := 0; k < total; k++ {
			idx := 0
			var mutate func(n any) any
			mutate = func(n any) any {
				switch x := n.(type) {
				case []any:
					out := make([]any, 0, len(x)+1)
					if idx == k {
						out = append(out, nil)
					}
					idx++
					replaceFirst := idx == k
					idx++
					for i, e := range x {
						if i == 0 && replaceFirst {
							out = append(out, nil)
							// still walk to keep the numbering stable
							mutate(e)
							continue
						}
						out = append(out, mutate(e))
					}
					return out
				case map[any]any:
					out := make(map[any]any, len(x))
					// deterministic order: by key string
					keys := make([]string, 0, len(x))
					byKey := map[string]any{}
					for kk := range x {
						ks := fmt.Sprint(kk)
						keys = append(keys, ks)
						byKey[ks] = kk
					}
					sortStrings(keys)
					for _, ks := range keys {
						kk := byKey[ks]
						if idx == k {
							idx++
							mutate(x[kk])
							out[kk] = nil
							continue
						}
						idx++
						out[kk] = mutate(x[kk])
					}
					return out
				}
				return n
			}
			mut := mutate(tree)
			mb, err := yaml.Marshal(mut)
			if err != nil {
				continue
			}
			variants++
			func() {
				defer func() {
					if r := recover(); r != nil {
						panics++
						st := strings.Split(string(debug.Stack()), "\n")
						var where []string
						for _, l := range st {
							if strings.Contains(l, "alertmanager/config") && !strings.Contains(l, "zz_") && len(where) < 6 {
								where = append(where, strings.TrimSpace(l))
							}
						}
						t.Errorf("%s variant %d: Load panicked: %v\n%s\n--- input ---\n%s", f, k, r, strings.Join(where, "\n"), mb)
					}
				}()
				if c, err := Load(string(mb)); err == nil {
					accepted++
					// what LoadFile and the status API do with an accepted configuration
					resolveFilepaths("/base", c)
					_ = c.String()
				}
			}()
		}
	}
	// second family: every key the configuration structs know (yaml tags read by reflection), present or not in the
	// fixtures, set to null in the place where it belongs: global, the root route, its first sub-route, the first
	// inhibit rule and the first receiver's first integration of every kind (conf.good.yml as the base)
	if b, err := os.ReadFile("testdata/conf.good.yml"); err == nil {
		withNull := func(where string, key string) (string, bool) {
			var tree map[any]any
			if yaml.Unmarshal(b, &tree) != nil {
				return "", false
			}
			var target map[any]any
			switch where {
			case "global":
				target, _ = tree["global"].(map[any]any)
			case "route":
				target, _ = tree["route"].(map[any]any)
			case "subroute":
				if r, ok := tree["route"].(map[any]any); ok {
					if rs, ok := r["routes"].([]any); ok && len(rs) > 0 {
						target, _ = rs[0].(map[any]any)
					}
				}
			case "inhibit":
				if rs, ok := tree["inhibit_rules"].([]any); ok && len(rs) > 0 {
					target, _ = rs[0].(map[any]any)
				}
			case "top":
				target = tree
			}
			if target == nil {
				return "", false
			}
			target[key] = nil
			mb, err := yaml.Marshal(tree)
			return string(mb), err == nil
		}
		keysOf := func(v any) []string {
			var out []string
			tp := reflect.TypeOf(v)
			for i := 0; i < tp.NumField(); i++ {
				tag := strings.Split(tp.Field(i).Tag.Get("yaml"), ",")[0]
				if tag != "" && tag != "-" {
					out = append(out, tag)
				}
			}
			return out
		}
		try := func(desc, in string) {
			variants++
			defer func() {
				if r := recover(); r != nil {
					panics++
					st := strings.Split(string(debug.Stack()), "\n")
					var where []string
					for _, l := range st {
						if strings.Contains(l, "alertmanager/config") && !strings.Contains(l, "zz_") && len(where) < 6 {
							where = append(where, strings.TrimSpace(l))
						}
					}
					t.Errorf("%s: Load panicked: %v\n%s", desc, r, strings.Join(where, "\n"))
				}
			}()
			if c, err := Load(in); err == nil {
				accepted++
				resolveFilepaths("/base", c)
				_ = c.String()
			}
		}
		for _, k := range keysOf(GlobalConfig{}) {
			if in, ok := withNull("global", k); ok {
				try("global."+k+": null", in)
			}
		}
		for _, k := range keysOf(Route{}) {
			for _, w := range []string{"route", "subroute"} {
				if in, ok := withNull(w, k); ok {
					try(w+"."+k+": null", in)
				}
			}
		}
		for _, k := range keysOf(Config{}) {
			if in, ok := withNull("top", k); ok {
				try("top-level "+k+": null", in)
			}
		}
		// every integration kind: a receiver whose only content is `<kind>_configs: [{<key>: null}]` for every key
		rt := reflect.TypeOf(Receiver{})
		for i := 0; i < rt.NumField(); i++ {
			f := rt.Field(i)
			tag := strings.Split(f.Tag.Get("yaml"), ",")[0]
			if f.Type.Kind() != reflect.Slice || f.Type.Elem().Kind() != reflect.Ptr || f.Type.Elem().Elem().Kind() != reflect.Struct {
				continue
			}
			et := f.Type.Elem().Elem()
			var keys []string
			var walk func(tp reflect.Type)
			walk = func(tp reflect.Type) {
				for j := 0; j < tp.NumField(); j++ {
					ff := tp.Field(j)
					parts := strings.Split(ff.Tag.Get("yaml"), ",")
					if len(parts) > 1 && parts[1] == "inline" && ff.Type.Kind() == reflect.Struct {
						walk(ff.Type)
						continue
					}
					if parts[0] != "" && parts[0] != "-" {
						keys = append(keys, parts[0])
					}
				}
			}
			walk(et)
			for _, k := range append(keys, "", "<null entry>") {
				item := "{}"
				if k == "<null entry>" {
					item = "null"
				} else if k != "" {
					item = "{" + k + ": null}"
				}
				in := "route:\n  receiver: r\nreceivers:\n- name: r\n  " + tag + ":\n  - " + item + "\n"
				try(tag+"[0]."+k+": null", in)
				try(tag+"[0]."+k+": null, global http_config null", "global:\n  http_config: null\n  smtp_tls_config: null\n"+in)
				try(tag+"[0]."+k+": null, global slack url", "global:\n  slack_api_url: https://hooks.slack.com/services/x\n"+in)
			}
		}
	}
	if variants == 0 {
		t.Fatalf("no variants generated (no fixtures found?)")
	}
	out, _ := json.Marshal(map[string]any{"fixtures": len(files), "variants": variants, "accepted": accepted, "panics": panics})
	fmt.Printf("GOVC-BOUNDED %s\n", out)
}

func sortStrings(a []string) {
	for i := 1; i < len(a); i++ {
		for j := i; j > 0 && a[j] < a[j-1]; j-- {
			a[j], a[j-1] = a[j-1], a[j]
		}
	}
}
