package template

// Bounded stand-in for C20 (run in package template): (*Template).Data builds what every notification template sees.
// Its ten loops over maps are within the subset of the contract engine, but the full functional proof (common labels =
// intersection over the batch) did not discharge within the time budgets, so the real function is executed
// exhaustively over small batches instead: every batch of up to maxAlerts alerts whose labels assign to each of the
// label names a,b one of {absent, x, y} and whose annotations assign to c one of {absent, x, y} (plus a d annotation
// for the thorough bound), firing or resolved. Labelled bounded; never counted as proved.

import (
	"encoding/json"
	"fmt"
	"net/url"
	"os"
	"strconv"
	"testing"
	"time"

	"github.com/prometheus/common/model"

	"github.com/prometheus/alertmanager/types"
)

func TestBoundedC20TemplateData(t *testing.T) {
	maxAlerts, annNames := 3, 1
	if v, err := strconv.Atoi(os.Getenv("GOVC_C20_ALERTS")); err == nil {
		maxAlerts = v
	}
	if v, err := strconv.Atoi(os.Getenv("GOVC_C20_ANNOTATIONS")); err == nil {
		annNames = v
	}
	labelNames := []model.LabelName{"a", "b"}
	annotationNames := []model.LabelName{"c", "d"}[:annNames]
	values := []model.LabelValue{"", "x", "y"} // "" = absent
	now := time.Now()

	// all label sets / annotation sets
	var sets func(names []model.LabelName) []model.LabelSet
	sets = func(names []model.LabelName) []model.LabelSet {
		if len(names) == 0 {
			return []model.LabelSet{{}}
		}
		var out []model.LabelSet
		for _, rest := range sets(names[1:]) {
			for _, v := range values {
				ls := rest.Clone()
				if v != "" {
					ls[names[0]] = v
				}
				out = append(out, ls)
			}
		}
		return out
	}
	type shape struct {
		labels, annotations model.LabelSet
		resolved            bool
	}
	var shapes []shape
	for _, l := range sets(labelNames) {
		for _, a := range sets(annotationNames) {
			shapes = append(shapes, shape{l, a, false})
		}
	}
	// resolved variants only for a few shapes (status is independent of the common-label computation)
	shapes = append(shapes, shape{model.LabelSet{"a": "x"}, model.LabelSet{}, true})

	tmpl := &Template{ExternalURL: &url.URL{Scheme: "http", Host: "am"}}
	group := model.LabelSet{"a": "x"}
	route := model.LabelSet{"r": "1"}
	cases := 0

	intersect := func(get func(s shape) model.LabelSet, batch []shape) map[string]string {
		out := map[string]string{}
		if len(batch) == 0 {
			return out
		}
		for k, v := range get(batch[0]) {
			all := true
			for _, s := range batch[1:] {
				if w, ok := get(s)[k]; !ok || w != v {
					all = false
				}
			}
			if all {
				out[string(k)] = string(v)
			}
		}
		return out
	}
	eqKV := func(got KV, want map[string]string) bool {
		if len(got) != len(want) {
			return false
		}
		for k, v := range want {
			if w, ok := got[k]; !ok || w != v {
				return false
			}
		}
		return true
	}

	var rec func(batch []shape)
	check := func(batch []shape) {
		cases++
		alerts := make([]*types.Alert, 0, len(batch))
		for _, s := range batch {
			a := &types.Alert{}
			a.Labels = s.labels.Clone()
			a.Annotations = s.annotations.Clone()
			a.StartsAt = now.Add(-time.Hour)
			if s.resolved {
				a.EndsAt = now.Add(-time.Minute)
			}
			alerts = append(alerts, a)
		}
		d := tmpl.Data("recv", group, route, "reason", alerts...)
		if d == nil {
			t.Fatalf("nil data for %v", batch)
		}
		if len(d.Alerts) != len(batch) {
			t.Fatalf("batch %v: %d alerts listed, want %d", batch, len(d.Alerts), len(batch))
		}
		for i, s := range batch {
			wantL, wantA := map[string]string{}, map[string]string{}
			for k, v := range s.labels {
				wantL[string(k)] = string(v)
			}
			for k, v := range s.annotations {
				wantA[string(k)] = string(v)
			}
			if !eqKV(d.Alerts[i].Labels, wantL) || !eqKV(d.Alerts[i].Annotations, wantA) {
				t.Fatalf("batch %v: alert %d listed with labels %v annotations %v", batch, i, d.Alerts[i].Labels, d.Alerts[i].Annotations)
			}
			wantStatus := "firing"
			if s.resolved {
				wantStatus = "resolved"
			}
			if d.Alerts[i].Status != wantStatus {
				t.Fatalf("batch %v: alert %d status %q, want %q", batch, i, d.Alerts[i].Status, wantStatus)
			}
		}
		if want := intersect(func(s shape) model.LabelSet { return s.labels }, batch); !eqKV(d.CommonLabels, want) {
			t.Fatalf("batch %v: CommonLabels = %v, want the intersection %v", batch, d.CommonLabels, want)
		}
		if want := intersect(func(s shape) model.LabelSet { return s.annotations }, batch); !eqKV(d.CommonAnnotations, want) {
			t.Fatalf("batch %v: CommonAnnotations = %v, want the intersection %v", batch, d.CommonAnnotations, want)
		}
		if !eqKV(d.GroupLabels, map[string]string{"a": "x"}) || !eqKV(d.RouteLabels, map[string]string{"r": "1"}) {
			t.Fatalf("batch %v: GroupLabels %v RouteLabels %v", batch, d.GroupLabels, d.RouteLabels)
		}
		if d.Receiver != "recv" || d.NotificationReason != "reason" || d.ExternalURL != "http://am" {
			t.Fatalf("batch %v: receiver %q reason %q url %q", batch, d.Receiver, d.NotificationReason, d.ExternalURL)
		}
		// status of the batch: firing iff some alert fires
		anyFiring := false
		for _, s := range batch {
			if !s.resolved {
				anyFiring = true
			}
		}
		wantStatus := "resolved"
		if anyFiring {
			wantStatus = "firing"
		}
		if d.Status != wantStatus {
			t.Fatalf("batch %v: status %q, want %q", batch, d.Status, wantStatus)
		}
	}
	rec = func(batch []shape) {
		check(batch)
		if len(batch) == maxAlerts {
			return
		}
		for _, s := range shapes {
			rec(append(batch[:len(batch):len(batch)], s))
		}
	}
	rec(nil)
	b, _ := json.Marshal(map[string]any{"alerts_up_to": maxAlerts, "label_names": labelNames, "annotation_names": annotationNames, "values": []string{"absent", "x", "y"}, "shapes": len(shapes), "cases": cases})
	fmt.Printf("GOVC-BOUNDED %s\n", b)
}
