package timeinterval

// Bounded stand-in for C15 (run in package timeinterval): the textual forms of time ranges and of weekday / month /
// day-of-month / year ranges are string algorithms (regular expression, strings.Split, strconv) outside the deductive
// subset. Executed exhaustively here: every "H:M" text with H in 0..29 and M in 0..69 in 1- and 2-digit spellings
// (parseTime accepts exactly HH:MM within the day plus 24:00 and returns H*60+M); every pair of those as a time
// range through TimeRange.UnmarshalYAML (accepted iff both parse and start < end); every range text a:b over the
// names and numbers of weekdays and months and over day-of-month / year numbers in a window around the legal values
// (accepted iff in range and ordered, with the proved numeric rules). Labelled bounded; never counted as proved.

import (
	"encoding/json"
	"fmt"
	"os"
	"strconv"
	"testing"

	"gopkg.in/yaml.v2"
)

func TestBoundedC15Parse(t *testing.T) {
	maxH := 29
	if v, err := strconv.Atoi(os.Getenv("GOVC_C15_MAXH")); err == nil {
		maxH = v
	}
	cases := 0
	type tm struct {
		text  string
		valid bool
		mins  int
	}
	var times []tm
	for h := 0; h <= maxH; h++ {
		for m := 0; m <= 69; m++ {
			for _, hs := range []string{strconv.Itoa(h), fmt.Sprintf("%02d", h)} {
				for _, ms := range []string{strconv.Itoa(m), fmt.Sprintf("%02d", m)} {
					text := hs + ":" + ms
					valid := len(hs) == 2 && len(ms) == 2 && ((h <= 23 && m <= 59) || (h == 24 && m == 0))
					got, err := parseTime(text)
					cases++
					if (err == nil) != valid {
						t.Fatalf("parseTime(%q): error %v, but the text is valid=%v", text, err, valid)
					}
					if valid && got != h*60+m {
						t.Fatalf("parseTime(%q) = %d minutes, want %d", text, got, h*60+m)
					}
					if len(hs) == 2 && len(ms) == 2 && m%7 == 0 && h%3 == 0 {
						times = append(times, tm{text, valid, h*60 + m})
					}
				}
			}
		}
	}
	for _, a := range times {
		for _, b := range times {
			var tr TimeRange
			err := yaml.Unmarshal([]byte(fmt.Sprintf("start_time: '%s'\nend_time: '%s'\n", a.text, b.text)), &tr)
			cases++
			want := a.valid && b.valid && a.mins < b.mins
			if (err == nil) != want {
				t.Fatalf("time range %s-%s: error %v, but well-formed=%v", a.text, b.text, err, want)
			}
			if want && (tr.StartMinute != a.mins || tr.EndMinute != b.mins) {
				t.Fatalf("time range %s-%s decoded as %d-%d", a.text, b.text, tr.StartMinute, tr.EndMinute)
			}
		}
	}
	days := []string{"sunday", "monday", "tuesday", "wednesday", "thursday", "friday", "saturday"}
	for i, a := range days {
		for j, b := range days {
			var r WeekdayRange
			err := yaml.Unmarshal([]byte("'"+a+":"+b+"'"), &r)
			cases++
			if (err == nil) != (i <= j) || (err == nil && (r.Begin != i || r.End != j)) {
				t.Fatalf("weekday range %s:%s: error %v, decoded %d..%d", a, b, err, r.Begin, r.End)
			}
		}
		var r WeekdayRange
		if err := yaml.Unmarshal([]byte("'"+a+"'"), &r); err != nil || r.Begin != i || r.End != i {
			t.Fatalf("weekday %s: error %v, decoded %d..%d", a, err, r.Begin, r.End)
		}
	}
	months := []string{"january", "february", "march", "april", "may", "june", "july", "august", "september", "october", "november", "december"}
	for i := -1; i <= 14; i++ {
		for j := -1; j <= 14; j++ {
			for _, names := range []bool{false, true} {
				a, b := strconv.Itoa(i), strconv.Itoa(j)
				inRange := i >= 1 && i <= 12 && j >= 1 && j <= 12
				if names {
					if !inRange {
						continue
					}
					a, b = months[i-1], months[j-1]
				}
				var r MonthRange
				err := yaml.Unmarshal([]byte("'"+a+":"+b+"'"), &r)
				cases++
				// (month numbers outside 1..12 are accepted by the code - such a range simply never matches; the
				// properties do not ask for their rejection, so only the order is required here)
				want := i <= j
				if (err == nil) != want || (want && (r.Begin != i || r.End != j)) {
					t.Fatalf("month range %s:%s: error %v, decoded %d..%d, well-formed=%v", a, b, err, r.Begin, r.End, want)
				}
			}
		}
	}
	for i := -33; i <= 33; i++ {
		for j := -33; j <= 33; j++ {
			var r DayOfMonthRange
			err := yaml.Unmarshal([]byte(fmt.Sprintf("'%d:%d'", i, j)), &r)
			cases++
			nb, ne := i, j
			if nb < 0 {
				nb += 28
			}
			if ne < 0 {
				ne += 28
			}
			want := i != 0 && j != 0 && i >= -31 && i <= 31 && j >= -31 && j <= 31 && !(i < 0 && j > 0) && nb <= ne
			if (err == nil) != want || (want && (r.Begin != i || r.End != j)) {
				t.Fatalf("day-of-month range %d:%d: error %v, decoded %d..%d, well-formed=%v", i, j, err, r.Begin, r.End, want)
			}
		}
	}
	for i := 2019; i <= 2026; i++ {
		for j := 2019; j <= 2026; j++ {
			var r YearRange
			err := yaml.Unmarshal([]byte(fmt.Sprintf("'%d:%d'", i, j)), &r)
			cases++
			if (err == nil) != (i <= j) || (err == nil && (r.Begin != i || r.End != j)) {
				t.Fatalf("year range %d:%d: error %v, decoded %d..%d", i, j, err, r.Begin, r.End)
			}
		}
	}
	// print / parse round trip (C17: the textual form of a loaded configuration loads back to equivalent time
	// intervals): every accepted time range (all start < end over 0..1440 in steps that hit every hour and every
	// minute of the first and last hour), every weekday, month, day-of-month and year range over their legal values,
	// through both the YAML and the JSON form.
	mins := []int{}
	for m := 0; m <= 1440; m++ {
		if m%60 == 0 || m < 61 || m > 1379 || m%37 == 0 {
			mins = append(mins, m)
		}
	}
	for _, a := range mins {
		for _, z := range mins {
			if a >= z {
				continue
			}
			in := TimeRange{StartMinute: a, EndMinute: z}
			cases++
			yb, err := yaml.Marshal(in)
			if err != nil {
				t.Fatalf("marshal %v: %v", in, err)
			}
			var out TimeRange
			if err := yaml.Unmarshal(yb, &out); err != nil || out != in {
				t.Fatalf("time range %d..%d printed as %q does not load back (%v, %v)", a, z, yb, out, err)
			}
			jb, err := json.Marshal(in)
			if err != nil {
				t.Fatalf("json marshal %v: %v", in, err)
			}
			var jout TimeRange
			if err := json.Unmarshal(jb, &jout); err != nil || jout != in {
				t.Fatalf("time range %d..%d printed as JSON %q does not load back (%v, %v)", a, z, jb, jout, err)
			}
		}
	}
	for i := 0; i <= 6; i++ {
		for j := i; j <= 6; j++ {
			in := WeekdayRange{InclusiveRange{Begin: i, End: j}}
			cases++
			yb, _ := yaml.Marshal(in)
			var out WeekdayRange
			if err := yaml.Unmarshal(yb, &out); err != nil || out != in {
				t.Fatalf("weekday range %d..%d printed as %q does not load back (%v, %v)", i, j, yb, out, err)
			}
		}
	}
	for i := 1; i <= 12; i++ {
		for j := i; j <= 12; j++ {
			in := MonthRange{InclusiveRange{Begin: i, End: j}}
			cases++
			yb, _ := yaml.Marshal(in)
			var out MonthRange
			if err := yaml.Unmarshal(yb, &out); err != nil || out != in {
				t.Fatalf("month range %d..%d printed as %q does not load back (%v, %v)", i, j, yb, out, err)
			}
		}
	}
	for i := -31; i <= 31; i++ {
		for j := -31; j <= 31; j++ {
			in := DayOfMonthRange{InclusiveRange{Begin: i, End: j}}
			yb, err := yaml.Marshal(in)
			if err != nil {
				continue
			}
			var probe DayOfMonthRange
			if yaml.Unmarshal([]byte(fmt.Sprintf("'%d:%d'", i, j)), &probe) != nil {
				continue // not a legal range
			}
			cases++
			var out DayOfMonthRange
			if err := yaml.Unmarshal(yb, &out); err != nil || out != in {
				t.Fatalf("day-of-month range %d..%d printed as %q does not load back (%v, %v)", i, j, yb, out, err)
			}
		}
	}
	for i := 2019; i <= 2026; i++ {
		for j := i; j <= 2026; j++ {
			in := YearRange{InclusiveRange{Begin: i, End: j}}
			cases++
			yb, _ := yaml.Marshal(in)
			var out YearRange
			if err := yaml.Unmarshal(yb, &out); err != nil || out != in {
				t.Fatalf("year range %d..%d printed as %q does not load back (%v, %v)", i, j, yb, out, err)
			}
		}
	}
	b, _ := json.Marshal(map[string]any{"cases": cases, "hours_up_to": maxH})
	fmt.Printf("GOVC-BOUNDED %s\n", b)
}
