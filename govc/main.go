package main

import (
	"runtime/pprof"
	"time"
	"flag"
	"fmt"
	"os"
	"sort"
	"strings"
)

func usage() {
	fmt.Fprintln(os.Stderr, "usage: govc <check|vc|ssa|replay|selftest> [flags]")
	os.Exit(2)
}

func main() {
	if len(os.Args) < 2 {
		usage()
	}
	// make the toolchain that builds /repo the `go` found on PATH (packages.Load and replays use it)
	if tc := findToolchain(); tc != "" {
		os.Setenv("PATH", tc+"/bin:"+os.Getenv("PATH"))
	}
	os.Setenv("GOFLAGS", "-mod=mod")
	os.Setenv("GOPROXY", "off")
	os.Setenv("GOTOOLCHAIN", "local")
	os.Setenv("GOSUMDB", "off")
	if pf := os.Getenv("GOVC_PROF"); pf != "" {
		f, _ := os.Create(pf)
		pprof.StartCPUProfile(f)
		go func() {
			time.Sleep(120 * time.Second)
			pprof.StopCPUProfile()
			f.Close()
		}()
	}
	switch os.Args[1] {
	case "vc":
		cmdVC(os.Args[2:])
	case "ssa":
		cmdSSA(os.Args[2:])
	case "check":
		os.Exit(cmdCheck(os.Args[2:]))
	case "replay":
		os.Exit(cmdReplay(os.Args[2:]))
	case "selftest":
		os.Exit(cmdSelftest(os.Args[2:]))
	default:
		usage()
	}
}

func loadAll(repo string, pkgs []string, overlay map[string][]byte) *Ctx {
	cx, err := LoadProgram(repo, pkgs, overlay)
	if err != nil {
		fmt.Fprintln(os.Stderr, "load:", err)
		os.Exit(3)
	}
	cx.indexFunctions()
	cs, err := LoadContracts(repo, "/verif/contracts", modPath)
	if err != nil {
		fmt.Fprintln(os.Stderr, "contracts:", err)
		os.Exit(3)
	}
	cx.cs = cs
	return cx
}

func cmdSSA(args []string) {
	fs := flag.NewFlagSet("ssa", flag.ExitOnError)
	repo := fs.String("repo", "/repo", "")
	fs.Parse(args)
	rest := fs.Args()
	if len(rest) < 2 {
		fmt.Fprintln(os.Stderr, "govc ssa <pkgpattern> <funcname>")
		os.Exit(2)
	}
	cx := loadAll(*repo, []string{rest[0]}, nil)
	if rest[1] == "-list" {
		var ks []string
		for k := range cx.fnByKey {
			if strings.Contains(k, strings.TrimPrefix(rest[0], ".")) {
				ks = append(ks, k)
			}
		}
		sort.Strings(ks)
		for _, k := range ks {
			fmt.Println(k)
		}
		return
	}
	for k, f := range cx.fnByKey {
		if strings.HasSuffix(k, "::"+rest[1]) {
			f.WriteTo(os.Stdout)
			for i, h := range loopHeaders(f) {
				fmt.Printf("# loop %d: header block %d\n", i+1, h.Index)
			}
		}
	}
}

// vc: verify the named functions (debugging aid)
func cmdVC(args []string) {
	fs := flag.NewFlagSet("vc", flag.ExitOnError)
	repo := fs.String("repo", "/repo", "")
	timeout := fs.Int("timeout", 10, "")
	verbose := fs.Bool("v", false, "")
	out := fs.String("out", "/verif/out/vc", "")
	ov := fs.String("overlay", "", "orig=replacement[,orig=replacement]")
	fs.Parse(args)
	rest := fs.Args()
	if len(rest) < 2 {
		fmt.Fprintln(os.Stderr, "govc vc <pkgpattern> <funcname>...")
		os.Exit(2)
	}
	cx := loadAll(*repo, strings.Split(rest[0], ","), parseOverlay(*ov))
	var units []*UnitResult
	for _, name := range rest[1:] {
		found := false
		if strings.HasPrefix(name, "lemma:") {
			for _, l := range cx.cs.Lemmas {
				if l.Name == strings.TrimPrefix(name, "lemma:") && !l.Axiom {
					found = true
					u, err := cx.buildLemmaUnit(l)
					ur := &UnitResult{Unit: u, Name: "lemma_" + l.Name}
					if err != nil {
						ur.Err = err.Error()
					}
					units = append(units, ur)
				}
			}
		}
		keys := make([]string, 0)
		for k := range cx.cs.Funcs {
			keys = append(keys, k)
		}
		sort.Strings(keys)
		for _, k := range keys {
			fc := cx.cs.Funcs[k]
			if fc.Name != name && k != name {
				continue
			}
			fn := cx.lookupFn(fc.PkgPath, fc.Name)
			if fn == nil {
				fmt.Printf("contract %s: function not found\n", k)
				continue
			}
			found = true
			u, err := cx.buildFuncUnit(fn, fc)
			ur := &UnitResult{Unit: u, Name: fn.String()}
			if err != nil {
				ur.Err = err.Error()
			}
			units = append(units, ur)
		}
		if !found {
			fmt.Printf("no contract named %s\n", name)
		}
	}
	os.MkdirAll(*out, 0o755)
	solveAll(units, *out, *timeout, 0, 16)
	for _, ur := range units {
		fmt.Printf("== %s\n", ur.Name)
		if ur.Err != "" {
			fmt.Printf("   ENGINE ERROR: %s\n", ur.Err)
			continue
		}
		for _, r := range ur.Results {
			ok := r.OK()
			mark := "ok  "
			if !ok {
				mark = "FAIL"
			}
			if !ok || *verbose {
				fmt.Printf("   %s %-60s %-8s %-10s %.2fs  %s:%d\n", mark, r.Obl.ID, r.Status, r.Solver, r.Seconds, r.Obl.Pos.Filename, r.Obl.Pos.Line)
				if !ok {
					fmt.Printf("        %s\n        file %s\n", r.Obl.Desc, r.File)
					if r.Model != "" {
						fmt.Printf("        model %s\n", strings.ReplaceAll(r.Model, "\n", " "))
					}
					if r.Status == "error" {
						fmt.Printf("        output %s\n", firstLines(r.Output, 3))
					}
				}
			}
		}
		n, d := 0, 0
		for _, r := range ur.Results {
			n++
			if r.OK() {
				d++
			}
		}
		fmt.Printf("   %d/%d discharged\n", d, n)
		if *verbose {
			for _, k := range sortedKeys(ur.Unit.notes) {
				fmt.Printf("   note: %s\n", k)
			}
			for _, k := range sortedKeys(ur.Unit.callsHavoc) {
				fmt.Printf("   havoc-call: %s\n", k)
			}
			for _, k := range sortedKeys(ur.Unit.callsInlined) {
				fmt.Printf("   inlined: %s\n", k)
			}
			for _, k := range sortedKeys(ur.Unit.callsNoEffect) {
				fmt.Printf("   assumed-no-effect: %s\n", k)
			}
		}
	}
}

func firstLines(s string, n int) string {
	ls := strings.Split(s, "\n")
	if len(ls) > n {
		ls = ls[:n]
	}
	return strings.Join(ls, " | ")
}

func cmdReplay(args []string) int  { fmt.Println("not implemented"); return 2 }
func cmdSelftest(args []string) int { fmt.Println("not implemented"); return 2 }

func parseOverlay(s string) map[string][]byte {
	if s == "" {
		return nil
	}
	m := map[string][]byte{}
	for _, kv := range strings.Split(s, ",") {
		parts := strings.SplitN(kv, "=", 2)
		if len(parts) != 2 {
			continue
		}
		b, err := os.ReadFile(parts[1])
		if err != nil {
			fmt.Fprintln(os.Stderr, "overlay:", err)
			os.Exit(3)
		}
		m[parts[0]] = b
	}
	return m
}
