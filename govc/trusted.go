package main

// Assumed contracts of external functions (the trusted table, DESIGN Appendix B).

import (
	"strings"
	"fmt"
	"go/types"

	"golang.org/x/tools/go/ssa"
)

type trustedFn func(fr *Frame, st *State, args []Val, instr ssa.Instruction) Val

var trusted map[string]trustedFn
var trustedInvoke map[string]trustedFn

func boolV(t string) Val { return Val{T: t, S: "Bool", Ty: types.Typ[types.Bool]} }
func intV(t string) Val  { return Val{T: t, S: "Int", Ty: types.Typ[types.Int]} }
func unitV() Val         { return Val{T: "false", S: "Bool"} }

func init() {
	trusted = map[string]trustedFn{
		"time.Now": func(fr *Frame, st *State, args []Val, instr ssa.Instruction) Val {
			u := fr.u
			c := u.heapCur(st, "$clock")
			n := u.enc.freshConst("now", "Int")
			u.assume(app(">=", n, c))
			u.assume(app(">", n, "0"))
			u.heapSet(st, "$clock", n)
			u.note("time.Now(): fresh instant, never before an earlier reading in the same execution (clock monotone)")
			return zoned(intV(n), u.zoneConst("zone_local"))
		},
		"(time.Time).Before": func(fr *Frame, st *State, a []Val, _ ssa.Instruction) Val { return boolV(app("<", a[0].T, a[1].T)) },
		"(time.Time).After":  func(fr *Frame, st *State, a []Val, _ ssa.Instruction) Val { return boolV(app(">", a[0].T, a[1].T)) },
		"(time.Time).Equal":  func(fr *Frame, st *State, a []Val, _ ssa.Instruction) Val { return boolV(eq(a[0].T, a[1].T)) },
		"(time.Time).Compare": func(fr *Frame, st *State, a []Val, _ ssa.Instruction) Val {
			return intV(ite(app("<", a[0].T, a[1].T), "(- 1)", ite(app(">", a[0].T, a[1].T), "1", "0")))
		},
		"(time.Time).IsZero": func(fr *Frame, st *State, a []Val, _ ssa.Instruction) Val { return boolV(eq(a[0].T, "0")) },
		"(time.Time).Add": func(fr *Frame, st *State, a []Val, _ ssa.Instruction) Val {
			fr.u.note("time.Time.Add / Duration arithmetic treated as mathematical (no saturation/overflow)")
			return zoned(intV(app("+", a[0].T, a[1].T)), a[0].Zone)
		},
		"(time.Time).Sub": func(fr *Frame, st *State, a []Val, _ ssa.Instruction) Val {
			fr.u.note("time.Time.Sub treated as mathematical (no saturation)")
			return intV(app("-", a[0].T, a[1].T))
		},
		"(time.Time).UTC": func(fr *Frame, st *State, a []Val, _ ssa.Instruction) Val {
			return zoned(intV(a[0].T), fr.u.zoneConst("zone_utc"))
		},
		"(time.Time).Local": func(fr *Frame, st *State, a []Val, _ ssa.Instruction) Val {
			return zoned(intV(a[0].T), fr.u.zoneConst("zone_local"))
		},
		"(time.Time).In": func(fr *Frame, st *State, a []Val, _ ssa.Instruction) Val { return zoned(intV(a[0].T), a[1].T) },
		"(time.Time).Round":    calUF("time_round", 2),
		"(time.Time).Truncate": calUF("time_trunc", 2),
		"time.Since": func(fr *Frame, st *State, a []Val, in ssa.Instruction) Val {
			n := trusted["time.Now"](fr, st, nil, in)
			return intV(app("-", n.T, a[0].T))
		},
		"time.Until": func(fr *Frame, st *State, a []Val, in ssa.Instruction) Val {
			n := trusted["time.Now"](fr, st, nil, in)
			return intV(app("-", a[0].T, n.T))
		},
		"(time.Time).Unix": func(fr *Frame, st *State, a []Val, _ ssa.Instruction) Val {
			return intV("(div (- " + a[0].T + " " + unixEpochNs + ") 1000000000)")
		},
		"(time.Time).UnixNano": func(fr *Frame, st *State, a []Val, _ ssa.Instruction) Val {
			return intV("(- " + a[0].T + " " + unixEpochNs + ")")
		},
		"(time.Time).Nanosecond": func(fr *Frame, st *State, a []Val, _ ssa.Instruction) Val {
			return intV("(mod (- " + a[0].T + " " + unixEpochNs + ") 1000000000)")
		},
		"time.Unix": func(fr *Frame, st *State, a []Val, _ ssa.Instruction) Val {
			return intV("(+ (* " + a[0].T + " 1000000000) " + a[1].T + " " + unixEpochNs + ")")
		},
		"(time.Time).Hour":    calZone("cal_hour", 0, 23, true),
		"(time.Time).Minute":  calZone("cal_minute", 0, 59, true),
		"(time.Time).Second":  calZone("cal_second", 0, 59, true),
		"(time.Time).Day":     calZone("cal_day", 1, 31, true),
		"(time.Time).Month":   calZone("cal_month", 1, 12, true),
		"(time.Time).Weekday": calZone("cal_weekday", 0, 6, true),
		"(time.Time).Year":    calZone("cal_year", 0, 0, false),
		"(time.Time).YearDay": calZone("cal_yday", 1, 366, true),
		"(time.Time).Location": func(fr *Frame, st *State, a []Val, _ ssa.Instruction) Val {
			return intV(fr.u.zoneOf(a[0]))
		},
		"(time.Duration).Seconds": func(fr *Frame, st *State, a []Val, _ ssa.Instruction) Val {
			return Val{T: "(/ (to_real " + a[0].T + ") 1000000000.0)", S: "Real"}
		},
		"(*google.golang.org/protobuf/types/known/timestamppb.Timestamp).AsTime": func(fr *Frame, st *State, a []Val, _ ssa.Instruction) Val {
			return intV(fr.u.tsInstant(st, a[0].T))
		},
		"google.golang.org/protobuf/types/known/timestamppb.New": func(fr *Frame, st *State, a []Val, in ssa.Instruction) Val {
			u := fr.u
			r := u.newRef(st)
			tsT := u.cx.lookupType("google.golang.org/protobuf/types/known/timestamppb", "Timestamp")
			u.zeroInit(st, r, tsT)
			s := tsT.Underlying().(*types.Struct)
			sec := u.enc.freshConst("sec", "Int")
			nan := u.enc.freshConst("nanos", "Int")
			u.assume(and(app("<=", "0", nan), app("<", nan, "1000000000")))
			u.assume(eq(a[0].T, "(+ (* "+sec+" 1000000000) "+nan+" "+unixEpochNs+")"))
			for i := 0; i < s.NumFields(); i++ {
				h, _ := u.fieldHeap(tsT, i)
				switch s.Field(i).Name() {
				case "Seconds":
					u.heapSet(st, h, sto(u.heapCur(st, h), r, sec))
				case "Nanos":
					u.heapSet(st, h, sto(u.heapCur(st, h), r, nan))
				}
			}
			return Val{T: r, S: "Int"}
		},
		"google.golang.org/protobuf/proto.Clone": protoClone,
		"google.golang.org/protobuf/proto.Equal": func(fr *Frame, st *State, a []Val, _ ssa.Instruction) Val {
			u := fr.u
			f := u.enc.declFun("proto_equal", []string{"Int", "Int"}, "Bool")
			t := app(f, a[0].T, a[1].T)
			u.assume(implies(eq(a[0].T, a[1].T), t))
			u.note("proto.Equal: uninterpreted relation on message references (reflexive); message contents not modelled")
			return boolV(t)
		},
		"google.golang.org/protobuf/proto.Size": func(fr *Frame, st *State, a []Val, _ ssa.Instruction) Val {
			u := fr.u
			v := fr.havocVal(types.Typ[types.Int], "protosize")
			u.assume(app(">=", v.T, "0"))
			u.note("proto.Size: unconstrained non-negative integer (encoding not modelled)")
			return v
		},
		"github.com/google/uuid.NewRandom": func(fr *Frame, st *State, a []Val, in ssa.Instruction) Val {
			sig := in.(ssa.CallInstruction).Common().Signature()
			return Val{Tup: fr.freshResults(sig, "uuid")}
		},
		// sort.Search(n, f): what binary search guarantees for ANY predicate: 0 <= r <= n, f(r) if r < n, !f(r-1) if r > 0
		// (with a monotone predicate that makes r the smallest index where f holds). The predicate is the real closure,
		// evaluated symbolically at r and r-1; it must not write to the heap.
		"sort.Search": func(fr *Frame, st *State, a []Val, in ssa.Instruction) Val {
			u := fr.u
			f := a[1]
			if f.Fn == nil {
				u.unsup("sort.Search with a predicate that is not a function literal")
			}
			n := a[0].T
			r := u.enc.freshConst("search", "Int")
			u.assumeG(st, and(app("<=", "0", r), app("<=", r, n)))
			for _, c := range []struct{ guard, arg string; neg bool }{{app("<", r, n), r, false}, {app(">", r, "0"), app("-", r, "1"), true}} {
				st1 := st.clone()
				st1.guard = and(st.guard, c.guard)
				before := st1.clone()
				v := fr.inline(st1, f.Fn, []Val{intV(c.arg)}, f.Bind, in.Pos())
				for k, h := range st1.heaps {
					if before.heaps[k] != h && !strings.HasPrefix(k, "L$") && !strings.HasPrefix(k, "$") {
						u.unsup("sort.Search predicate writes to heap %s", k)
					}
				}
				if c.neg {
					u.assumeG(st1, not(v.T))
				} else {
					u.assumeG(st1, v.T)
				}
			}
			u.note("sort.Search: assumed contract of the library: returns r in [0,n] with f(r) (if r<n) and !f(r-1) (if r>0); termination/complexity not modelled")
			return intV(r)
		},
		"sort.Stable":         sortPerm,
		"sort.Sort":           sortPerm,
		"sort.Slice":          sortPerm,
		"sort.SliceStable":    sortPerm,
		"sort.Strings":        sortPerm,
		"sort.Ints":           sortPerm,
		"sort.Float64s":       sortPerm,
		"slices.Sort":           sortPerm,
		"slices.SortFunc":       sortPerm,
		"slices.SortStableFunc": sortPerm,
		"slices.Reverse":        sortPerm,
		// in-place editors of their argument: the slots of the argument's array are unknown afterwards and so is the
		// returned slice (contents and length are not modelled - a function that uses them is decided by its other clauses)
		"slices.Compact":     sliceEdit,
		"slices.CompactFunc": sliceEdit,
		"slices.Delete":      sliceEdit,
		"slices.DeleteFunc":  sliceEdit,
		"slices.Insert":      sliceEdit,
		"slices.Replace":     sliceEdit,
		"container/heap.Push": heapOp("push"),
		"container/heap.Pop":  heapOp("pop"),
		"container/heap.Fix":  heapOp("fix"),
		"container/heap.Init": heapOp("init"),
		// fingerprint of a label set: an uninterpreted function of the label-set object (label sets are not mutated
		// after ingestion; no collision-freedom is derived from it). Same symbol as the contract-level `uf fpL`.
		"(github.com/prometheus/common/model.LabelSet).Fingerprint": func(fr *Frame, st *State, a []Val, _ ssa.Instruction) Val {
			u := fr.u
			f := u.enc.declFun("uf$fpL", []string{"Int"}, "Int")
			t := app(f, a[0].T)
			u.assume(app(">=", t, "0"))
			u.note("LabelSet.Fingerprint: uninterpreted function of the label-set object (label sets immutable once stored)")
			return intV(t)
		},
		"slices.Clone": func(fr *Frame, st *State, a []Val, in ssa.Instruction) Val {
			// slices.Clone(s): nil for nil, otherwise a new backing array holding the same elements
			u := fr.u
			ci := in.(ssa.CallInstruction)
			stt, ok := ci.Common().Args[0].Type().Underlying().(*types.Slice)
			if !ok {
				u.unsup("slices.Clone on non-slice")
			}
			src := a[0].T
			h := u.arrHeap(stt.Elem())
			es := u.enc.sortOf(stt.Elem())
			hc := u.heapCur(st, h)
			r := u.newRef(st)
			newRow := u.enc.freshConst("row", "(Array Int "+es+")")
			j := fmt.Sprintf("j!%d", u.enc.fresh)
			u.enc.fresh++
			u.assume(fmt.Sprintf("(forall ((%s Int)) (! (=> (and (<= 0 %s) (< %s (sl_len %s))) (= (select %s %s) (select (select %s (sl_base %s)) (+ (sl_off %s) %s)))) :pattern ((select %s %s))))",
				j, j, j, src, newRow, j, hc, src, src, j, newRow, j))
			u.heapStoreAt(st, h, r, newRow)
			isNil := eq(app("sl_base", src), "0")
			res := ite(isNil, "(mk_slice 0 0 0 0)", app("mk_slice", r, "0", app("sl_len", src), app("sl_len", src)))
			return Val{T: res, S: "Slice", Ty: ci.Common().Args[0].Type()}
		},
		"maps.Clone": func(fr *Frame, st *State, a []Val, in ssa.Instruction) Val {
			// maps.Clone(m): nil for a nil map, otherwise a new map object with the same keys and values
			u := fr.u
			ci := in.(ssa.CallInstruction)
			mt, ok := ci.Common().Args[0].Type().Underlying().(*types.Map)
			if !ok {
				u.unsup("maps.Clone on non-map")
			}
			dom, val, _, _ := u.mapHeaps(mt)
			src := a[0].T
			r := u.newRef(st)
			u.heapStoreAt(st, dom, r, sel(u.heapCur(st, dom), src))
			u.heapStoreAt(st, val, r, sel(u.heapCur(st, val), src))
			return Val{T: ite(eq(src, "0"), "0", r), S: "Int", Ty: ci.Common().Args[0].Type()}
		},
		"time.Date": func(fr *Frame, st *State, a []Val, in ssa.Instruction) Val {
			// time.Date(y, m, d, h, mi, s, ns, loc): an uninterpreted instant, carrying loc (normalisation of
			// out-of-range fields - day 0, month 13 - is inside the trusted calendar)
			u := fr.u
			f := u.enc.declFun("time_date", []string{"Int", "Int", "Int", "Int", "Int", "Int", "Int", "Int"}, "Int")
			var ts []string
			for i := 0; i < 8; i++ {
				ts = append(ts, a[i].T)
			}
			u.note("time.Date is an uninterpreted function of its arguments (package time trusted)")
			r := zoned(intV(app(f, ts...)), a[7].T)
			if v, ok := in.(ssa.Value); ok {
				r.Ty = v.Type()
			}
			return r
		},
		"maps.Copy": func(fr *Frame, st *State, a []Val, in ssa.Instruction) Val {
			// maps.Copy(dst, src): dst' = dst overridden by src
			u := fr.u
			ci := in.(ssa.CallInstruction)
			mt, ok := ci.Common().Args[0].Type().Underlying().(*types.Map)
			if !ok {
				u.unsup("maps.Copy on non-map")
			}
			dom, val, ks, vs := u.mapHeaps(mt)
			d, s := a[0].T, a[1].T
			fr.safe(st, or(not(eq(d, "0")), eq(sel(u.heapCur(st, dom), s), u.emptySet(ks))), in.Pos(), "nilmap", "maps.Copy into a nil map")
			dh, vh := u.heapCur(st, dom), u.heapCur(st, val)
			nd := u.enc.freshConst("copydom", "(Array "+ks+" Bool)")
			nv := u.enc.freshConst("copyval", "(Array "+ks+" "+vs+")")
			u.assume(fmt.Sprintf("(forall ((k!m %s)) (! (= (select %s k!m) (or (select (select %s %s) k!m) (select (select %s %s) k!m))) :pattern ((select %s k!m))))", ks, nd, dh, d, dh, s, nd))
			u.assume(fmt.Sprintf("(forall ((k!m %s)) (! (= (select %s k!m) (ite (select (select %s %s) k!m) (select (select %s %s) k!m) (select (select %s %s) k!m))) :pattern ((select %s k!m))))", ks, nv, dh, s, vh, s, vh, d, nv))
			u.assume(app(">=", u.card(ks, nd), "0"))
			u.heapStoreAt(st, dom, d, nd)
			u.heapStoreAt(st, val, d, nv)
			return unitV()
		},
		// decoders write through their target argument: everything reachable is havoced (sound, coarse)
		"google.golang.org/protobuf/proto.Unmarshal":                       havocAllCall,
		"google.golang.org/protobuf/encoding/protodelim.UnmarshalFrom":     decodeIntoTarget(1),
		"encoding/json.Unmarshal":                                          havocAllCall,
		"gopkg.in/yaml.v2.Unmarshal":                                       havocAllCall,
		"gopkg.in/yaml.v2.UnmarshalStrict":                                 havocAllCall,
		// errors.Join(errs...): nil exactly when every argument is nil (library contract)
		"errors.Join": func(fr *Frame, st *State, a []Val, in ssa.Instruction) Val {
			u := fr.u
			r := u.enc.freshConst("joined", "Int")
			u.assume(app(">=", r, "0"))
			h := u.arrHeap(types.Universe.Lookup("error").Type())
			row := sel(u.heapCur(st, h), app("sl_base", a[0].T))
			j := fmt.Sprintf("j!%d", u.enc.fresh)
			u.enc.fresh++
			allNil := fmt.Sprintf("(forall ((%s Int)) (=> (and (<= 0 %s) (< %s (sl_len %s))) (= (select %s (ix (sl_off %s) %s)) 0)))", j, j, j, a[0].T, row, a[0].T, j)
			u.assumeG(st, eq(eq(r, "0"), allNil))
			u.note("errors.Join: assumed contract of the library: the result is nil exactly when every argument is nil")
			return Val{T: r, S: "Int", Ty: types.Universe.Lookup("error").Type()}
		},
		"errors.New":  freshErr,
		"fmt.Errorf":  freshErr,
		"errors.Is": func(fr *Frame, st *State, a []Val, _ ssa.Instruction) Val {
			u := fr.u
			f := u.enc.declFun("errors_is", []string{"Int", "Int"}, "Bool")
			t := app(f, a[0].T, a[1].T)
			u.assume(implies(eq(a[0].T, a[1].T), t))
			u.assume(implies(and(eq(a[0].T, "0"), not(eq(a[1].T, "0"))), not(t)))
			return boolV(t)
		},
		"(*sync.Mutex).Lock":      lockOp("lock"),
		"(*sync.Mutex).Unlock":    lockOp("unlock"),
		"(*sync.RWMutex).Lock":    lockOp("lock"),
		"(*sync.RWMutex).Unlock":  lockOp("unlock"),
		"(*sync.RWMutex).RLock":   lockOp("rlock"),
		"(*sync.RWMutex).RUnlock": lockOp("runlock"),
	}
	trustedInvoke = map[string]trustedFn{}
}

func freshErr(fr *Frame, st *State, a []Val, _ ssa.Instruction) Val {
	u := fr.u
	e := u.enc.freshConst("err", "Int")
	u.assume(app(">", e, "0"))
	return Val{T: e, S: "Int"}
}

func lockOp(kind string) trustedFn {
	return func(fr *Frame, st *State, a []Val, _ ssa.Instruction) Val {
		return unitV()
	}
}

func calUF(name string, n int) trustedFn {
	return func(fr *Frame, st *State, a []Val, _ ssa.Instruction) Val {
		u := fr.u
		var ss, ts []string
		for i := 0; i < n; i++ {
			ss = append(ss, "Int")
			ts = append(ts, a[i].T)
		}
		f := u.enc.declFun(name, ss, "Int")
		u.note("calendar function %s is an uninterpreted function of the instant (package time trusted; location fixed per call)", name)
		return intV(app(f, ts...))
	}
}

// zoned: the time value v carrying location z
func zoned(v Val, z string) Val { v.Zone = z; return v }

// zoneConst: the distinguished locations UTC and Local
func (u *Unit) zoneConst(name string) string { return u.enc.declConst(name, "Int") }

// zoneOf: the location a time value carries; a value of unknown origin gets an unconstrained one
func (u *Unit) zoneOf(v Val) string {
	if v.Zone != "" {
		return v.Zone
	}
	return u.enc.freshConst("zone_unknown", "Int")
}

// calName: the two-argument calendar function (instant, location)
func (u *Unit) calFn(name string) string { return u.enc.declFun(name, []string{"Int", "Int"}, "Int") }

// calZone: a calendar function of the instant and the location the value carries
func calZone(name string, lo, hi int, ranged bool) trustedFn {
	return func(fr *Frame, st *State, a []Val, _ ssa.Instruction) Val {
		u := fr.u
		t := app(u.calFn(name), a[0].T, u.zoneOf(a[0]))
		if ranged {
			u.assume(and(app("<=", intLit(int64(lo)), t), app("<=", t, intLit(int64(hi)))))
		}
		u.note("calendar function %s is an uninterpreted function of the instant and the location the value carries, with its documented range (package time trusted)", name)
		return intV(t)
	}
}

func calRange(name string, lo, hi int) trustedFn {
	return func(fr *Frame, st *State, a []Val, _ ssa.Instruction) Val {
		u := fr.u
		f := u.enc.declFun(name, []string{"Int"}, "Int")
		t := app(f, a[0].T)
		u.assume(and(app("<=", intLit(int64(lo)), t), app("<=", t, intLit(int64(hi)))))
		u.note("calendar function %s is an uninterpreted function of the instant with its documented range (package time trusted)", name)
		return intV(t)
	}
}

// protoClone: proto.Clone(m) returns a fresh message of the same dynamic type whose fields equal m's
// (nested messages are shared in the model: a shallow copy; sound as long as the caller does not mutate
// nested messages in place through the clone - assumption listed).
func protoClone(fr *Frame, st *State, a []Val, in ssa.Instruction) Val {
	u := fr.u
	ci := in.(ssa.CallInstruction)
	arg := ci.Common().Args[0]
	if mi, ok := arg.(*ssa.MakeInterface); ok {
		if pt, ok := mi.X.Type().Underlying().(*types.Pointer); ok && isStructT(pt.Elem()) {
			x := fr.get(mi.X)
			if x.Loc == nil {
				r := u.newRef(st)
				stT := pt.Elem()
				s := stT.Underlying().(*types.Struct)
				for i := 0; i < s.NumFields(); i++ {
					h, _ := u.fieldHeap(stT, i)
					u.heapStoreAt(st, h, r, sel(u.heapCur(st, h), x.T))
				}
				u.note("proto.Clone modelled as a shallow field-wise copy into a fresh object (nested messages shared)")
				res := fr.box(st, Val{T: ite(eq(x.T, "0"), "0", r), S: "Int"}, mi.X.Type())
				return res
			}
		}
	}
	sig := ci.Common().Signature()
	return fr.freshResults(sig, "clone")[0]
}

// heapOp: assumed contracts of container/heap over a slice of pointers to items that carry an `index` and a
// `priority` field (the shape of limit.sortedItems, whose Less/Swap/Push/Pop are verified separately against the
// heap.Interface protocol). Membership is expressed through the index field: member(r) == 0 <= idx[r] < len && row[off+idx[r]] == r.
//   requires  every slot holds a non-nil item whose index field is its position
//   ensures   Push: members' = members + x, len' = len+1      Pop: result = old root, members' = members - root, root.index = -1
//             Fix/Init: members' = members
//             all: slots consistent again, root has minimal priority, index fields of non-members untouched,
//                  value/priority fields untouched
// "root has minimal priority" is the consequence of heap order that the callers need (the induction from heap order
// to root-minimality is not mechanised; listed as assumption).
func heapOp(kind string) trustedFn {
	return func(fr *Frame, st *State, a []Val, in ssa.Instruction) Val {
		u := fr.u
		h := a[0]
		if h.BoxLoc == nil {
			u.unsup("container/heap.%s on an interface value that is not a statically known pointer to a slice", kind)
		}
		loc := h.BoxLoc
		slT, ok := loc.Ty.Underlying().(*types.Slice)
		if !ok {
			u.unsup("container/heap.%s: not a slice", kind)
		}
		pt, ok := slT.Elem().Underlying().(*types.Pointer)
		if !ok {
			u.unsup("container/heap.%s: elements are not pointers", kind)
		}
		itemT := pt.Elem()
		is, ok := itemT.Underlying().(*types.Struct)
		if !ok {
			u.unsup("container/heap.%s: elements are not struct pointers", kind)
		}
		fi, fp := -1, -1
		for i := 0; i < is.NumFields(); i++ {
			switch is.Field(i).Name() {
			case "index":
				fi = i
			case "priority":
				fp = i
			}
		}
		if fi < 0 || fp < 0 {
			u.unsup("container/heap.%s: item type lacks index/priority fields", kind)
		}
		u.note("container/heap.%s: assumed contract (multiset change, slots/index fields consistent, root minimal); heap order => root minimal not mechanised", kind)
		idxH, _ := u.fieldHeap(itemT, fi)
		prioH, _ := u.fieldHeap(itemT, fp)
		arrH := u.arrHeap(slT.Elem())
		S := u.readLoc(st, loc)
		A := u.heapCur(st, arrH)
		R := sel(A, app("sl_base", S))
		I := u.heapCur(st, idxH)
		P := u.heapCur(st, prioH)
		off, ln := app("sl_off", S), app("sl_len", S)
		pos := u.cx.fset.Position(in.Pos())
		_ = pos
		// precondition: slots consistent
		wf := fmt.Sprintf("(forall ((i!h Int)) (=> (and (<= 0 i!h) (< i!h %s)) (and (not (= (select %s (ix %s i!h)) 0)) (= (select %s (select %s (ix %s i!h))) i!h))))", ln, R, off, I, R, off)
		fr.topFrame().u.oblige(st, "pre", fmt.Sprintf("%s/pre:heap.%s:slots", fr.topFrame().fnLabel(), kind), wf, in.Pos(), nil, "container/heap."+kind+": every slot holds a non-nil item whose index field is its position")
		member := func(r, I, R, off, ln string) string {
			return fmt.Sprintf("(and (not (= %s 0)) (<= 0 (select %s %s)) (< (select %s %s) %s) (= (select %s (ix %s (select %s %s))) %s))", r, I, r, I, r, ln, R, off, I, r, r)
		}
		var x, root string
		switch kind {
		case "push":
			// x is a boxed *item
			g := u.enc.declFun("unbox$Int", []string{"Int"}, "Int")
			x = app(g, a[1].T)
		case "pop":
			fr.topFrame().u.oblige(st, "pre", fmt.Sprintf("%s/pre:heap.pop:nonempty", fr.topFrame().fnLabel()), app(">", ln, "0"), in.Pos(), nil, "container/heap.Pop on a non-empty heap")
			root = u.enc.freshConst("heaproot", "Int")
			u.assume(eq(root, sel(R, app("ix", off, "0"))))
		case "fix":
			fr.topFrame().u.oblige(st, "pre", fmt.Sprintf("%s/pre:heap.fix:index", fr.topFrame().fnLabel()), and(app("<=", "0", a[1].T), app("<", a[1].T, ln)), in.Pos(), nil, "container/heap.Fix index in range")
		}
		// new slice, row, index heap
		S2 := u.enc.freshConst("heapslice", "Slice")
		u.typeFacts(Val{T: S2, S: "Slice", Ty: loc.Ty})
		oldAlloc := u.heapCur(st, "$alloc")
		newBase := app("sl_base", S2)
		// the backing array is the old one or a fresh one
		na := u.heapHavoc(st, "$alloc")
		u.assume(app(">=", na, oldAlloc))
		u.assume(or(eq(newBase, app("sl_base", S)), and(app(">", newBase, oldAlloc), app("<=", newBase, na))))
		if kind != "push" {
			u.assume(eq(newBase, app("sl_base", S)))
		}
		R2 := u.enc.freshConst("heaprow", arrayRange(u.heapSort[arrH]))
		u.heapStoreAt(st, arrH, newBase, R2)
		I2 := u.heapHavoc(st, idxH)
		u.flushBounds(st)
		off2, ln2 := app("sl_off", S2), app("sl_len", S2)
		switch kind {
		case "push":
			u.assume(eq(ln2, app("+", ln, "1")))
		case "pop":
			u.assume(eq(ln2, app("-", ln, "1")))
		default:
			u.assume(eq(ln2, ln))
		}
		// slots consistent
		u.assume(fmt.Sprintf("(forall ((i!h Int)) (! (=> (and (<= 0 i!h) (< i!h %s)) (and (not (= (select %s (ix %s i!h)) 0)) (<= (select %s (ix %s i!h)) %s) (= (select %s (select %s (ix %s i!h))) i!h))) :pattern ((select %s (ix %s i!h)))))", ln2, R2, off2, R2, off2, na, I2, R2, off2, R2, off2))
		// membership
		var memNew string
		switch kind {
		case "push":
			memNew = or(member("r!h", I, R, off, ln), and(eq("r!h", x), not(eq("r!h", "0"))))
		case "pop":
			memNew = and(member("r!h", I, R, off, ln), not(eq("r!h", root)))
		default:
			memNew = member("r!h", I, R, off, ln)
		}
		u.assume(fmt.Sprintf("(forall ((r!h Int)) (! (= %s %s) :pattern ((select %s r!h))))", member("r!h", I2, R2, off2, ln2), memNew, I2))
		// index fields of non-members untouched (the popped root gets -1)
		keep := fmt.Sprintf("(=> (not %s) (= (select %s r!h) (select %s r!h)))", member("r!h", I2, R2, off2, ln2), I2, I)
		if kind == "pop" {
			keep = fmt.Sprintf("(=> (and (not %s) (not (= r!h %s))) (= (select %s r!h) (select %s r!h)))", member("r!h", I2, R2, off2, ln2), root, I2, I)
			u.assume(eq(sel(I2, root), "(- 1)"))
		}
		u.assume(fmt.Sprintf("(forall ((r!h Int)) (! %s :pattern ((select %s r!h))))", keep, I2))
		// root minimal
		u.assume(fmt.Sprintf("(forall ((i!h Int)) (! (=> (and (<= 0 i!h) (< i!h %s)) (<= (select %s (select %s (ix %s 0))) (select %s (select %s (ix %s i!h))))) :pattern ((select %s (ix %s i!h)))))", ln2, P, R2, off2, P, R2, off2, R2, off2))
		u.writeLoc(st, loc, S2)
		if kind == "pop" {
			// result: the old root, boxed
			return fr.box(st, Val{T: root, S: "Int"}, slT.Elem())
		}
		return unitV()
	}
}

// sortPerm: sort.Sort / sort.Stable on a slice-typed sort.Interface value permute the slice's elements in place:
// afterwards the slots in range hold the old elements rearranged by some bijection (the ordering produced by Less is
// not modelled).
func sortPerm(fr *Frame, st *State, a []Val, in ssa.Instruction) Val {
	u := fr.u
	ci := in.(ssa.CallInstruction)
	// the slice: wrapped in an interface (sort.Sort, sort.Stable, sort.Slice, sort.SliceStable) or passed as it is
	// (slices.Sort, slices.SortFunc, slices.SortStableFunc, slices.Reverse, sort.Strings, ...)
	var sv ssa.Value = ci.Common().Args[0]
	if mi, ok := sv.(*ssa.MakeInterface); ok {
		sv = mi.X
	}
	slT, ok := sv.Type().Underlying().(*types.Slice)
	if !ok {
		u.havocAll(st)
		return unitV()
	}
	x := fr.get(sv)
	h := u.arrHeap(slT.Elem())
	es := u.enc.sortOf(slT.Elem())
	hc := u.heapCur(st, h)
	oldRow := sel(hc, app("sl_base", x.T))
	newRow := u.enc.freshConst("sorted", "(Array Int "+es+")")
	off, ln := app("sl_off", x.T), app("sl_len", x.T)
	u.assume(fmt.Sprintf("(forall ((j!s Int)) (! (=> (not (and (<= %s j!s) (< j!s (+ %s %s)))) (= (select %s j!s) (select %s j!s))) :pattern ((select %s j!s))))", off, off, ln, newRow, oldRow, newRow))
	// the permutation and its inverse as explicit (Skolem) functions: slot i of the result holds old slot perm(i), old
	// slot k went to slot inv(k), and the two are inverse to each other (sort.Sort only calls Swap, so it is a bijection)
	perm := u.enc.declFun(u.enc.freshName("perm"), []string{"Int"}, "Int")
	inv := u.enc.declFun(u.enc.freshName("perminv"), []string{"Int"}, "Int")
	u.assume(fmt.Sprintf("(forall ((i!s Int)) (! (=> (and (<= 0 i!s) (< i!s %s)) (and (<= 0 (%s i!s)) (< (%s i!s) %s) (= (%s (%s i!s)) i!s) (= (select %s (ix %s i!s)) (select %s (ix %s (%s i!s)))))) :pattern ((select %s (ix %s i!s))) :pattern ((%s i!s))))", ln, perm, perm, ln, inv, perm, newRow, off, oldRow, off, perm, newRow, off, perm))
	u.assume(fmt.Sprintf("(forall ((k!s Int)) (! (=> (and (<= 0 k!s) (< k!s %s)) (and (<= 0 (%s k!s)) (< (%s k!s) %s) (= (%s (%s k!s)) k!s) (= (select %s (ix %s (%s k!s))) (select %s (ix %s k!s))))) :pattern ((select %s (ix %s k!s))) :pattern ((%s k!s))))", ln, inv, inv, ln, perm, inv, newRow, off, inv, oldRow, off, oldRow, off, inv))
	u.heapStoreAt(st, h, app("sl_base", x.T), newRow)
	u.note("sort.Sort/Stable/Slice, slices.Sort*/Reverse: modelled as an in-place permutation of the slice (order not modelled)")
	return unitV()
}

// decodeIntoTarget: a decoder that writes only through its target message (argument k, an interface wrapping a pointer
// to a struct known statically): every field of the target gets an unconstrained value, pointer-like fields point to
// nothing older than the call (nil or an object the decoder allocated); no other pre-existing object changes.
// Falls back to havocking everything when the target is not statically a pointer to a struct.
func decodeIntoTarget(k int) trustedFn {
	return func(fr *Frame, st *State, a []Val, in ssa.Instruction) Val {
		u := fr.u
		ci := in.(ssa.CallInstruction)
		arg := ci.Common().Args[k]
		mi, ok := arg.(*ssa.MakeInterface)
		if !ok {
			return havocAllCall(fr, st, a, in)
		}
		pt, ok := mi.X.Type().Underlying().(*types.Pointer)
		if !ok || !isStructT(pt.Elem()) {
			return havocAllCall(fr, st, a, in)
		}
		x := fr.get(mi.X)
		if x.Loc != nil || x.T == "" {
			return havocAllCall(fr, st, a, in)
		}
		stT := canon(pt.Elem())
		sT := stT.Underlying().(*types.Struct)
		before := u.heapCur(st, "$alloc")
		after := u.enc.freshConst("allocdec", "Int")
		u.assume(app(">=", after, before))
		u.heapSet(st, "$alloc", after)
		for i := 0; i < sT.NumFields(); i++ {
			if opaqueStruct(sT.Field(i).Type()) {
				continue
			}
			h, ft := u.fieldHeap(stT, i)
			v := fr.havocVal(ft, "dec$"+sT.Field(i).Name())
			if v.T == "" {
				continue
			}
			switch ft.Underlying().(type) {
			case *types.Pointer, *types.Map:
				u.assume(or(eq(v.T, "0"), and(app("<", before, v.T), app("<=", v.T, after))))
			case *types.Slice:
				u.assume(or(eq(app("sl_base", v.T), "0"), and(app("<", before, app("sl_base", v.T)), app("<=", app("sl_base", v.T), after))))
			}
			u.heapStoreAt(st, h, x.T, v.T)
		}
		sig := ci.Common().Signature()
		rs := fr.freshResults(sig, "decode")
		u.note("decoder call writes only through its target message (fields of the target unconstrained, nested messages newly allocated)")
		return resultVal(u, sig, rs)
	}
}

func havocAllCall(fr *Frame, st *State, a []Val, in ssa.Instruction) Val {
	u := fr.u
	u.havocAll(st)
	sig := in.(ssa.CallInstruction).Common().Signature()
	rs := fr.freshResults(sig, "decode")
	u.note("decoder call writes through its target: whole modelled heap havoced")
	return resultVal(u, sig, rs)
}

// sliceEdit: slices.Compact/Delete/Insert/... rewrite the backing array of their first argument and return a slice of
// unknown length over it.
func sliceEdit(fr *Frame, st *State, a []Val, in ssa.Instruction) Val {
	u := fr.u
	ci := in.(ssa.CallInstruction)
	sv := ci.Common().Args[0]
	slT, ok := sv.Type().Underlying().(*types.Slice)
	if !ok {
		u.havocAll(st)
		return fr.havocVal(ci.Common().Signature().Results().At(0).Type(), "sliceedit")
	}
	x := fr.get(sv)
	h := u.arrHeap(slT.Elem())
	es := u.enc.sortOf(slT.Elem())
	newRow := u.enc.freshConst("edited", "(Array Int "+es+")")
	u.heapStoreAt(st, h, app("sl_base", x.T), newRow)
	u.note("slices.Compact/Delete/Insert/Replace: the argument's array is unknown afterwards, the result is an unconstrained slice")
	return fr.havocVal(slT, "sliceedit")
}
