package main

import (
	"fmt"
	"go/token"
	"go/types"
	"os"
	"path/filepath"
	"sort"
	"strings"

	"golang.org/x/tools/go/packages"
	"golang.org/x/tools/go/ssa"
	"golang.org/x/tools/go/ssa/ssautil"
)

const modPath = "github.com/prometheus/alertmanager"

type Ctx struct {
	repo     string
	fset     *token.FileSet
	prog     *ssa.Program
	pkgs     map[string]*packages.Package // by import path (all deps)
	spkgs    map[string]*ssa.Package
	cs       *Contracts
	fnByKey  map[string]*ssa.Function // fkey(pkg, relstring)
	epochCtr int
	overlay  map[string][]byte
	loadErrs []string
}

func goEnv() []string {
	env := os.Environ()
	// find the go toolchain that builds /repo (go1.25.0); the PATH default may be older.
	tc := findToolchain()
	out := []string{}
	for _, e := range env {
		if strings.HasPrefix(e, "GOFLAGS=") || strings.HasPrefix(e, "GOTOOLCHAIN=") || strings.HasPrefix(e, "GOPROXY=") || strings.HasPrefix(e, "PATH=") || strings.HasPrefix(e, "GOSUMDB=") {
			continue
		}
		out = append(out, e)
	}
	path := os.Getenv("PATH")
	if tc != "" {
		path = filepath.Join(tc, "bin") + ":" + path
	}
	out = append(out, "PATH="+path, "GOFLAGS=-mod=mod", "GOPROXY=off", "GOTOOLCHAIN=local", "GOSUMDB=off")
	return out
}

func findToolchain() string {
	if tc := os.Getenv("GOVC_GOROOT"); tc != "" {
		return tc
	}
	home := os.Getenv("HOME")
	if home == "" {
		home = "/root"
	}
	cands := []string{
		filepath.Join(home, "go/pkg/mod/golang.org/toolchain@v0.0.1-go1.25.0.linux-amd64"),
		"/root/go/pkg/mod/golang.org/toolchain@v0.0.1-go1.25.0.linux-amd64",
	}
	for _, c := range cands {
		if _, err := os.Stat(filepath.Join(c, "bin", "go")); err == nil {
			return c
		}
	}
	return ""
}

func goBin() string {
	if tc := findToolchain(); tc != "" {
		return filepath.Join(tc, "bin", "go")
	}
	return "go"
}

func LoadProgram(repo string, patterns []string, overlay map[string][]byte) (*Ctx, error) {
	cfg := &packages.Config{
		Mode:       packages.LoadAllSyntax,
		Dir:        repo,
		BuildFlags: []string{"-tags=verif"},
		Env:        goEnv(),
		Overlay:    overlay,
	}
	pkgs, err := packages.Load(cfg, patterns...)
	if err != nil {
		return nil, err
	}
	cx := &Ctx{repo: repo, pkgs: map[string]*packages.Package{}, spkgs: map[string]*ssa.Package{}, fnByKey: map[string]*ssa.Function{}, overlay: overlay}
	packages.Visit(pkgs, nil, func(p *packages.Package) {
		cx.pkgs[p.PkgPath] = p
		for _, e := range p.Errors {
			if strings.HasPrefix(p.PkgPath, modPath) {
				cx.loadErrs = append(cx.loadErrs, e.Error())
			}
		}
	})
	if len(cx.loadErrs) > 0 {
		return cx, fmt.Errorf("load errors: %s", strings.Join(cx.loadErrs, "; "))
	}
	prog, _ := ssautil.AllPackages(pkgs, ssa.GlobalDebug)
	prog.Build()
	cx.prog = prog
	cx.fset = prog.Fset
	for _, sp := range prog.AllPackages() {
		cx.spkgs[sp.Pkg.Path()] = sp
	}
	return cx, nil
}

// index functions of the packages we have contracts for (and anonymous functions)
func (cx *Ctx) indexFunctions() {
	all := ssautil.AllFunctions(cx.prog)
	for f := range all {
		if f.Pkg == nil {
			// instantiations / wrappers
			continue
		}
		if f.Synthetic != "" && !strings.Contains(f.Synthetic, "package initializer") {
			// skip wrappers/thunks
			if f.Origin() == nil {
				continue
			}
		}
		key := fkey(f.Pkg.Pkg.Path(), f.RelString(f.Pkg.Pkg))
		if old, ok := cx.fnByKey[key]; ok && old != f {
			continue
		}
		cx.fnByKey[key] = f
	}
	cx.indexGenericMethods()
}

// indexGenericMethods adds methods of generic named types (not reachable through AllFunctions).
func (cx *Ctx) indexGenericMethods() {
	for path, sp := range cx.spkgs {
		if !strings.HasPrefix(path, modPath) {
			continue
		}
		scope := sp.Pkg.Scope()
		for _, name := range scope.Names() {
			tn, ok := scope.Lookup(name).(*types.TypeName)
			if !ok {
				continue
			}
			named, ok := tn.Type().(*types.Named)
			if !ok || named.TypeParams().Len() == 0 {
				continue
			}
			for i := 0; i < named.NumMethods(); i++ {
				m := named.Method(i)
				f := cx.prog.FuncValue(m)
				if f == nil {
					continue
				}
				key := fkey(path, f.RelString(sp.Pkg))
				if _, ok := cx.fnByKey[key]; !ok {
					cx.fnByKey[key] = f
				}
				for _, an := range f.AnonFuncs {
					k2 := fkey(path, an.RelString(sp.Pkg))
					if _, ok := cx.fnByKey[k2]; !ok {
						cx.fnByKey[k2] = an
					}
				}
			}
		}
	}
}

func (cx *Ctx) lookupFn(pkg, name string) *ssa.Function {
	if f, ok := cx.fnByKey[fkey(pkg, name)]; ok {
		return f
	}
	return nil
}

// contractFor returns the contract for an SSA function (by generic origin if instantiated).
func (cx *Ctx) contractFor(f *ssa.Function) *FuncContract {
	if f == nil {
		return nil
	}
	if o := f.Origin(); o != nil {
		f = o
	}
	if f.Pkg == nil {
		return nil
	}
	return cx.cs.Funcs[fkey(f.Pkg.Pkg.Path(), f.RelString(f.Pkg.Pkg))]
}

func (cx *Ctx) ifaceContract(recv types.Type, method string) *FuncContract {
	recv = types.Unalias(recv)
	n, ok := recv.(*types.Named)
	if !ok || n.Obj().Pkg() == nil {
		return nil
	}
	return cx.cs.Funcs[fkey(n.Obj().Pkg().Path(), "("+n.Obj().Name()+")."+method)]
}

func inRepo(f *ssa.Function) bool {
	if f == nil {
		return false
	}
	if o := f.Origin(); o != nil {
		f = o
	}
	p := f.Pkg
	if p == nil && f.Parent() != nil {
		p = f.Parent().Pkg
	}
	return p != nil && strings.HasPrefix(p.Pkg.Path(), modPath)
}

func fnPkgPath(f *ssa.Function) string {
	if o := f.Origin(); o != nil {
		f = o
	}
	if f.Pkg != nil {
		return f.Pkg.Pkg.Path()
	}
	if f.Parent() != nil {
		return fnPkgPath(f.Parent())
	}
	return ""
}

// loop headers of a function in source order
func loopHeaders(f *ssa.Function) []*ssa.BasicBlock {
	var hs []*ssa.BasicBlock
	seen := map[*ssa.BasicBlock]bool{}
	for _, b := range f.Blocks {
		for _, s := range b.Succs {
			if s.Dominates(b) && !seen[s] {
				seen[s] = true
				hs = append(hs, s)
			}
		}
	}
	sort.Slice(hs, func(i, j int) bool {
		pi, pj := blockPos(hs[i]), blockPos(hs[j])
		if pi != pj && pi.IsValid() && pj.IsValid() {
			return pi < pj
		}
		return hs[i].Index < hs[j].Index
	})
	return hs
}

func blockPos(b *ssa.BasicBlock) token.Pos {
	for _, in := range b.Instrs {
		if p := in.Pos(); p.IsValid() {
			return p
		}
	}
	// look into successors' first instr (range loops have synthetic heads)
	return token.NoPos
}

func loopBody(h *ssa.BasicBlock) map[*ssa.BasicBlock]bool {
	body := map[*ssa.BasicBlock]bool{h: true}
	var stack []*ssa.BasicBlock
	for _, p := range h.Preds {
		if h.Dominates(p) {
			if !body[p] {
				body[p] = true
				stack = append(stack, p)
			}
		}
	}
	for len(stack) > 0 {
		b := stack[len(stack)-1]
		stack = stack[:len(stack)-1]
		for _, p := range b.Preds {
			if !body[p] {
				body[p] = true
				stack = append(stack, p)
			}
		}
	}
	return body
}

// reverse postorder ignoring back edges
func rpo(f *ssa.Function) []*ssa.BasicBlock {
	seen := map[*ssa.BasicBlock]bool{}
	var post []*ssa.BasicBlock
	var dfs func(b *ssa.BasicBlock)
	dfs = func(b *ssa.BasicBlock) {
		seen[b] = true
		for _, s := range b.Succs {
			if !seen[s] {
				dfs(s)
			}
		}
		post = append(post, b)
	}
	if len(f.Blocks) > 0 {
		dfs(f.Blocks[0])
	}
	for i, j := 0, len(post)-1; i < j; i, j = i+1, j-1 {
		post[i], post[j] = post[j], post[i]
	}
	return post
}
