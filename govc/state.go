package main

// Symbolic values, locations, states and heap access.

import (
	"fmt"
	"go/token"
	"go/types"
	"sort"
	"strings"

	"golang.org/x/tools/go/ssa"
)

type acc struct {
	t     types.Type // struct type (field step) or nil (array step)
	i     int
	arrIx string // array index term for array steps
}

type Loc struct {
	Heap string
	Idx  []string
	Path []acc
	Ty   types.Type // pointee type
}

type Val struct {
	T    string
	S    string
	Loc  *Loc
	Tup  []Val
	Fn   *ssa.Function
	Bind []Val
	Ty   types.Type
	// map-range iterator
	Iter *iterInfo
	// interface value statically known to wrap a pointer to a sub-location (e.g. heap.Interface(&b.items))
	BoxLoc *Loc
	BoxTy  types.Type
	// time.Time values: the location the value carries (term of sort Int: a *time.Location reference, zone_utc or
	// zone_local); "" = not known. Only the calendar functions (Hour, Day, ...) depend on it.
	Zone string
}

type iterInfo struct {
	Map     Val
	Ghost   string // ghost heap name of visited set
	Dom0    string // domain at range creation
	KeySort string
	IsStr   bool
}

type State struct {
	guard string
	heaps map[string]string
	epoch int
}

func (s *State) clone() *State {
	n := &State{guard: s.guard, heaps: make(map[string]string, len(s.heaps)), epoch: s.epoch}
	for k, v := range s.heaps {
		n.heaps[k] = v
	}
	return n
}

type Obl struct {
	ID      string
	Kind    string // post pre inv-entry inv-keep safe at frame lemma vacuity
	Fn      string
	Clause  *Clause
	Guard   string
	Cond    string
	NAssume int
	Pos     token.Position
	Desc    string
	Extra   []string // extra assumptions for this obligation only
	Cover   bool     // satisfiable expected (vacuity check)
	Inputs  []ModelVar
}

type ModelVar struct {
	Name string // Go-level name
	Term string
	Ty   types.Type
}

// Unit: verification of one function (or one lemma).
type Unit struct {
	inTypeInv bool // a type invariant is being expanded
	patHits map[string]map[string]bool // clause pattern -> callees it matched (review aid)
	strLtAx bool                        // the order axioms of str_lt have been emitted for this unit
	cx            *Ctx
	enc           *Enc
	assumes       []string
	obls          []*Obl
	heapSort      map[string]string
	dry           int
	epochCtr      int
	ghostTy       map[string]types.Type
	freshRefs     map[string]bool
	closureSeen   map[string]bool
	heapPtr       map[string]string // heaps whose cells hold references: "cell" | "mapval" | "arr" | "slicecell" | "slicearr" | "slicemapval"
	pendingBounds []string
	dryRows       map[string]map[string]bool
	dryWhole      map[string]bool
	dryFresh      map[string]bool
	blacklist     map[string]bool
	autoFailed    []string
	pendingAuto   []pendingAuto
	notes         map[string]bool
	errs          []string
	fnName        string
	nframes       int
	oblSeq        map[string]int
	inputs        []ModelVar
	callsInlined  map[string]bool
	callsContract map[string]bool
	callsTrusted  map[string]bool
	callsHavoc    map[string]bool
	callsNoEffect map[string]bool
	abstracted    bool
}

func (u *Unit) note(f string, a ...any) { u.notes[fmt.Sprintf(f, a...)] = true }

type unsupported struct{ msg string }

func (u *Unit) unsup(f string, a ...any) { panic(unsupported{fmt.Sprintf(f, a...)}) }

func (u *Unit) assume(t string) {
	if u.dry > 0 || t == "true" {
		return
	}
	u.assumes = append(u.assumes, t)
}

func (u *Unit) assumeG(st *State, t string) { u.assume(implies(st.guard, t)) }

func (u *Unit) oblige(st *State, kind, id string, cond string, pos token.Pos, cl *Clause, desc string) *Obl {
	if u.dry > 0 {
		return nil
	}
	if cond == "true" {
		// still count as discharged trivially
	}
	u.oblSeq[id]++
	if n := u.oblSeq[id]; n > 1 {
		id = fmt.Sprintf("%s#%d", id, n)
	}
	o := &Obl{ID: id, Kind: kind, Fn: u.fnName, Clause: cl, Guard: st.guard, Cond: cond, NAssume: len(u.assumes), Desc: desc}
	if pos.IsValid() {
		o.Pos = u.cx.fset.Position(pos)
	}
	u.obls = append(u.obls, o)
	return o
}

// ---- heaps ----

func (u *Unit) heapBase(name string, epoch int) string {
	if epoch == 0 {
		return name
	}
	return fmt.Sprintf("%s@e%d", name, epoch)
}

func (u *Unit) regHeap(name, sort string) {
	if old, ok := u.heapSort[name]; ok && old != sort {
		panic(fmt.Sprintf("heap %s sort clash %s vs %s", name, old, sort))
	}
	u.heapSort[name] = sort
}

func (u *Unit) heapCur(st *State, name string) string {
	if t, ok := st.heaps[name]; ok {
		return t
	}
	if strings.HasPrefix(name, "$defer:") || strings.HasPrefix(name, "$called:") {
		return "false"
	}
	if strings.HasPrefix(name, "$count:") || strings.HasPrefix(name, "$cnttrue:") || strings.HasPrefix(name, "$cntnil:") {
		return "0"
	}
	srt, ok := u.heapSort[name]
	if !ok {
		panic("unregistered heap " + name)
	}
	bn := u.heapBase(name, st.epoch)
	if !u.enc.declared[q(bn)] {
		c := u.enc.declConst(bn, srt)
		u.heapFacts(name, c)
		if name != "$alloc" {
			if f := u.boundFact(name, c, u.heapCur(st, "$alloc")); f != "" && u.dry == 0 {
				u.assumes = append(u.assumes, f)
			}
		}
	}
	return u.enc.declConst(bn, srt)
}

// heapFacts: invariants of every version of a heap (nil map is empty).
func (u *Unit) heapFacts(name, c string) {
	if strings.HasPrefix(name, "MD$") {
		ks := arrayDomain(arrayRange(u.heapSort[name]))
		u.assumes = append(u.assumes, eq(sel(c, "0"), u.emptySet(ks)))
	}
}

// boundFact: every reference stored in heap version c is an allocated one (<= alloc).
func (u *Unit) boundFact(name, c, alloc string) string {
	shape, ok := u.heapPtr[name]
	if !ok {
		return ""
	}
	srt := u.heapSort[name]
	switch shape {
	case "cell":
		return fmt.Sprintf("(forall ((r!b Int)) (! (=> (<= r!b %s) (<= (select %s r!b) %s)) :pattern ((select %s r!b))))", alloc, c, alloc, c)
	case "slicecell":
		return fmt.Sprintf("(forall ((r!b Int)) (! (=> (<= r!b %s) (<= (sl_base (select %s r!b)) %s)) :pattern ((select %s r!b))))", alloc, c, alloc, c)
	case "mapval", "arr":
		ks := arrayDomain(arrayRange(srt))
		return fmt.Sprintf("(forall ((r!b Int) (k!b %s)) (! (=> (<= r!b %s) (<= (select (select %s r!b) k!b) %s)) :pattern ((select (select %s r!b) k!b))))", ks, alloc, c, alloc, c)
	case "slicemapval", "slicearr":
		ks := arrayDomain(arrayRange(srt))
		return fmt.Sprintf("(forall ((r!b Int) (k!b %s)) (! (=> (<= r!b %s) (<= (sl_base (select (select %s r!b) k!b)) %s)) :pattern ((select (select %s r!b) k!b))))", ks, alloc, c, alloc, c)
	}
	return ""
}

// flushBounds: state the allocation bound for heap versions havoced since the last flush.
func (u *Unit) flushBounds(st *State) {
	if u.dry > 0 {
		u.pendingBounds = nil
		return
	}
	alloc := u.heapCur(st, "$alloc")
	for _, name := range u.pendingBounds {
		if c, ok := st.heaps[name]; ok {
			if f := u.boundFact(name, c, alloc); f != "" {
				u.assume(f)
			}
		}
	}
	u.pendingBounds = nil
}

// heapStoreAt: H[idx] := cell, remembering the written row during loop dry runs.
func (u *Unit) heapStoreAt(st *State, name, idx, cell string) {
	if u.dry > 0 {
		if u.dryRows[name] == nil {
			u.dryRows[name] = map[string]bool{}
		}
		u.dryRows[name][idx] = true
		saved := u.dryWhole[name]
		u.heapSet(st, name, sto(u.heapCur(st, name), idx, cell))
		u.dryWhole[name] = saved
		return
	}
	u.heapSet(st, name, sto(u.heapCur(st, name), idx, cell))
}

func (u *Unit) heapSet(st *State, name, term string) {
	if u.dry > 0 {
		u.dryWhole[name] = true
	}
	srt := u.heapSort[name]
	c := u.enc.freshConst(name, srt)
	u.assume(eq(c, term))
	st.heaps[name] = c
}

func (u *Unit) heapHavoc(st *State, name string) string {
	srt := u.heapSort[name]
	c := u.enc.freshConst(name, srt)
	st.heaps[name] = c
	if u.dry > 0 {
		u.dryWhole[name] = true
	}
	if u.dry == 0 {
		u.heapFacts(name, c)
		u.pendingBounds = append(u.pendingBounds, name)
	}
	return c
}

func (u *Unit) havocAll(st *State) {
	alloc := u.heapCur(st, "$alloc")
	clock := u.heapCur(st, "$clock")
	// keep ghost call flags (they only record history)
	keep := map[string]string{}
	for k, v := range st.heaps {
		if strings.HasPrefix(k, "$called:") || strings.HasPrefix(k, "$ret:") || strings.HasPrefix(k, "$first:") || strings.HasPrefix(k, "$count:") || strings.HasPrefix(k, "$cnttrue:") || strings.HasPrefix(k, "$cntnil:") || strings.HasPrefix(k, "$defer:") || strings.HasPrefix(k, "$visited:") || strings.HasPrefix(k, "L$") {
			keep[k] = v
		}
	}
	u.epochCtr++
	st.epoch = u.epochCtr
	st.heaps = keep
	na := u.heapHavoc(st, "$alloc")
	u.assume(app(">=", na, alloc))
	nc := u.heapHavoc(st, "$clock")
	u.assume(app(">=", nc, clock))
	u.flushBounds(st)
}

// havocFreshOnly: an unknown callee that is assumed to modify only objects allocated after `bound` (the allocation
// counter at entry of the function under verification): rows up to bound keep their contents in every heap.
func (u *Unit) havocFreshOnly(st *State, bound string) {
	alloc := u.heapCur(st, "$alloc")
	clock := u.heapCur(st, "$clock")
	var names []string
	for k := range st.heaps {
		names = append(names, k)
	}
	sort.Strings(names)
	for _, k := range names {
		if strings.HasPrefix(k, "$") || strings.HasPrefix(k, "L$") {
			continue
		}
		srt := u.heapSort[k]
		if !strings.HasPrefix(srt, "(Array Int ") {
			continue // globals and other scalars: not modified
		}
		old := st.heaps[k]
		nh := u.heapHavoc(st, k)
		if u.dry == 0 {
			u.assume(fmt.Sprintf("(forall ((r!o Int)) (! (=> (<= r!o %s) (= (select %s r!o) (select %s r!o))) :pattern ((select %s r!o))))", bound, nh, old, nh))
		}
	}
	na := u.heapHavoc(st, "$alloc")
	u.assume(app(">=", na, alloc))
	nc := u.heapHavoc(st, "$clock")
	u.assume(app(">=", nc, clock))
	u.flushBounds(st)
}

// heapTypeKey names the heap partition of a Go type: values of different Go types live in different
// heap arrays and therefore cannot alias (named non-struct types are identified with their underlying type,
// since conversions between them share memory).
func heapTypeKey(t types.Type) string {
	t = types.Unalias(t)
	if n, ok := t.(*types.Named); ok {
		if _, isStruct := n.Underlying().(*types.Struct); !isStruct {
			if _, isIface := n.Underlying().(*types.Interface); !isIface {
				return heapTypeKey(n.Underlying())
			}
		}
		return typeKey(n)
	}
	switch u := t.(type) {
	case *types.Pointer:
		return "*" + heapTypeKey(u.Elem())
	case *types.Slice:
		return "[]" + heapTypeKey(u.Elem())
	case *types.Array:
		return fmt.Sprintf("[%d]%s", u.Len(), heapTypeKey(u.Elem()))
	case *types.Map:
		return "map[" + heapTypeKey(u.Key()) + "]" + heapTypeKey(u.Elem())
	case *types.Interface:
		return "iface"
	case *types.Signature:
		return "func"
	case *types.Chan:
		return "chan " + heapTypeKey(u.Elem())
	}
	return typeKey(t)
}

func refKind(t types.Type) string {
	t = types.Unalias(t)
	if isTime(t) || opaqueStruct(t) {
		return ""
	}
	switch t.Underlying().(type) {
	case *types.Pointer, *types.Map, *types.Chan:
		return "ref"
	case *types.Slice:
		return "slice"
	}
	return ""
}

func (u *Unit) markPtr(name, shape string, elem types.Type) {
	switch refKind(elem) {
	case "ref":
		u.heapPtr[name] = shape
	case "slice":
		u.heapPtr[name] = "slice" + shape
	}
}

func (u *Unit) fieldHeap(structT types.Type, i int) (string, types.Type) {
	structT = canon(structT)
	st := structT.Underlying().(*types.Struct)
	f := st.Field(i)
	name := "H$" + u.enc.structName(structT) + "$" + f.Name()
	u.markPtr(name, "cell", f.Type())
	u.regHeap(name, "(Array Int "+u.enc.sortOf(f.Type())+")")
	return name, f.Type()
}

func (u *Unit) cellHeap(t types.Type) string {
	if a, ok := t.Underlying().(*types.Array); ok && !opaqueStruct(t) {
		return u.arrHeap(a.Elem())
	}
	s := u.enc.sortOf(t)
	name := "C$" + heapTypeKey(t)
	u.regHeap(name, "(Array Int "+s+")")
	return name
}

func (u *Unit) arrHeap(elem types.Type) string {
	s := u.enc.sortOf(elem)
	name := "A$" + heapTypeKey(elem)
	u.markPtr(name, "arr", elem)
	u.regHeap(name, "(Array Int (Array Int "+s+"))")
	return name
}

func (u *Unit) mapHeaps(m *types.Map) (dom, val string, ks, vs string) {
	ks, vs = u.enc.sortOf(m.Key()), u.enc.sortOf(m.Elem())
	// heaps are keyed by the (underlying) Go map type: maps of different types can never alias
	mk := heapTypeKey(m)
	dom = "MD$" + mk
	val = "MV$" + mk
	u.markPtr(val, "mapval", m.Elem())
	u.regHeap(dom, "(Array Int (Array "+ks+" Bool))")
	u.regHeap(val, "(Array Int (Array "+ks+" "+vs+"))")
	return
}

func (u *Unit) card(ks, domArr string) string {
	if !u.enc.declared[q("card$"+ks)] {
		f := u.enc.declFun("card$"+ks, []string{"(Array " + ks + " Bool)"}, "Int")
		ds := "(Array " + ks + " Bool)"
		u.enc.axioms = append(u.enc.axioms,
			fmt.Sprintf("(forall ((d!c %s) (k!c %s)) (! (= (%s (store d!c k!c true)) (+ (%s d!c) (ite (select d!c k!c) 0 1))) :pattern ((%s (store d!c k!c true)))))", ds, ks, f, f, f),
			fmt.Sprintf("(forall ((d!c %s) (k!c %s)) (! (= (%s (store d!c k!c false)) (- (%s d!c) (ite (select d!c k!c) 1 0))) :pattern ((%s (store d!c k!c false)))))", ds, ks, f, f, f),
			fmt.Sprintf("(forall ((d!c %s)) (! (>= (%s d!c) 0) :pattern ((%s d!c))))", ds, f, f),
			fmt.Sprintf("(= (%s %s) 0)", f, u.emptySet(ks)),
		)
	}
	f := u.enc.declFun("card$"+ks, []string{"(Array " + ks + " Bool)"}, "Int")
	t := app(f, domArr)
	return t
}

func (u *Unit) emptySet(ks string) string {
	return "((as const (Array " + ks + " Bool)) false)"
}

// cardFacts: ground facts about a cardinality term.
func (u *Unit) cardFacts(ks, domArr string) {
	c := u.card(ks, domArr)
	u.assume(app(">=", c, "0"))
	u.assume(eq(eq(c, "0"), eq(domArr, u.emptySet(ks))))
}

// ---- locations ----

func isStructT(t types.Type) bool {
	t = types.Unalias(t)
	if isTime(t) || opaqueStruct(t) {
		return false
	}
	s, ok := t.Underlying().(*types.Struct)
	return ok && s.NumFields() > 0
}

func (u *Unit) readCell(st *State, l *Loc) string {
	t := u.heapCur(st, l.Heap)
	for _, i := range l.Idx {
		t = sel(t, i)
	}
	return t
}

func (u *Unit) readLoc(st *State, l *Loc) string {
	t := u.readCell(st, l)
	for _, a := range l.Path {
		if a.t == nil {
			t = sel(t, a.arrIx)
		} else {
			t = app(u.enc.accessor(a.t, a.i), t)
		}
	}
	return t
}

func (u *Unit) updPath(cell string, path []acc, v string) string {
	if len(path) == 0 {
		return v
	}
	a := path[0]
	if a.t == nil {
		return sto(cell, a.arrIx, u.updPath(sel(cell, a.arrIx), path[1:], v))
	}
	s := a.t.Underlying().(*types.Struct)
	u.enc.sortOf(a.t)
	args := make([]string, s.NumFields())
	for j := 0; j < s.NumFields(); j++ {
		g := app(u.enc.accessor(a.t, j), cell)
		if j == a.i {
			args[j] = u.updPath(g, path[1:], v)
		} else {
			args[j] = g
		}
	}
	return "(" + u.enc.ctor(a.t) + " " + strings.Join(args, " ") + ")"
}

func (u *Unit) writeLoc(st *State, l *Loc, v string) {
	if v == "" {
		// e.g. the address of a field (&x.f) stored in the heap: interior pointers have no first-class value here
		u.unsup("storing a value without a term (an interior pointer such as &x.f?) into %s", l.Heap)
	}
	h := u.heapCur(st, l.Heap)
	switch len(l.Idx) {
	case 1:
		cell := sel(h, l.Idx[0])
		u.heapStoreAt(st, l.Heap, l.Idx[0], u.updPath(cell, l.Path, v))
	case 2:
		row := sel(h, l.Idx[0])
		cell := sel(row, l.Idx[1])
		u.heapStoreAt(st, l.Heap, l.Idx[0], sto(row, l.Idx[1], u.updPath(cell, l.Path, v)))
	default:
		panic("writeLoc idx")
	}
}

// fieldLoc: address of field i of the struct pointed to by p (p: pointer Val to struct type T).
func (u *Unit) fieldLoc(p Val, structT types.Type, i int) *Loc {
	structT = canon(structT)
	s := structT.Underlying().(*types.Struct)
	if p.Loc != nil {
		np := append(append([]acc{}, p.Loc.Path...), acc{t: structT, i: i})
		u.enc.sortOf(structT)
		return &Loc{Heap: p.Loc.Heap, Idx: p.Loc.Idx, Path: np, Ty: s.Field(i).Type()}
	}
	h, ft := u.fieldHeap(structT, i)
	return &Loc{Heap: h, Idx: []string{p.T}, Ty: ft}
}

// load the value a pointer Val points to (pointee type t).
func (u *Unit) load(st *State, p Val, t types.Type) Val {
	t = canon(t)
	if p.Loc != nil {
		return Val{T: u.readLoc(st, p.Loc), S: u.enc.sortOf(t), Ty: t}
	}
	if isStructT(t) {
		s := t.Underlying().(*types.Struct)
		args := make([]string, s.NumFields())
		for i := 0; i < s.NumFields(); i++ {
			h, _ := u.fieldHeap(t, i)
			args[i] = sel(u.heapCur(st, h), p.T)
		}
		srt := u.enc.sortOf(t)
		return Val{T: "(" + u.enc.ctor(t) + " " + strings.Join(args, " ") + ")", S: srt, Ty: t}
	}
	h := u.cellHeap(t)
	if _, ok := t.Underlying().(*types.Array); ok && !opaqueStruct(t) {
		return Val{T: sel(u.heapCur(st, h), p.T), S: u.enc.sortOf(t), Ty: t}
	}
	return Val{T: sel(u.heapCur(st, h), p.T), S: u.enc.sortOf(t), Ty: t}
}

func (u *Unit) store(st *State, p Val, t types.Type, v Val) {
	t = canon(t)
	if p.Loc != nil {
		u.writeLoc(st, p.Loc, v.T)
		return
	}
	if isStructT(t) {
		s := t.Underlying().(*types.Struct)
		for i := 0; i < s.NumFields(); i++ {
			h, _ := u.fieldHeap(t, i)
			u.heapStoreAt(st, h, p.T, app(u.enc.accessor(t, i), v.T))
		}
		return
	}
	h := u.cellHeap(t)
	u.heapStoreAt(st, h, p.T, v.T)
}

// allocate a fresh reference
func (u *Unit) newRef(st *State) string {
	a := u.heapCur(st, "$alloc")
	r := u.enc.freshConst("ref", "Int")
	u.assume(eq(r, app("+", a, "1")))
	u.heapSet(st, "$alloc", r)
	u.freshRefs[r] = true
	return r
}

// zero-initialise object of type t at ref r
func (u *Unit) zeroInit(st *State, r string, t types.Type) {
	t = canon(t)
	if isStructT(t) {
		s := t.Underlying().(*types.Struct)
		for i := 0; i < s.NumFields(); i++ {
			h, ft := u.fieldHeap(t, i)
			u.heapStoreAt(st, h, r, u.enc.zero(ft))
		}
		return
	}
	h := u.cellHeap(t)
	if a, ok := t.Underlying().(*types.Array); ok && !opaqueStruct(t) {
		es := u.enc.sortOf(a.Elem())
		z := u.enc.constArr("Int", es, u.enc.zero(a.Elem()))
		u.heapStoreAt(st, h, r, z)
		return
	}
	u.heapStoreAt(st, h, r, u.enc.zero(t))
}

// merge states at a join
func (u *Unit) mergeStates(ins []*State) *State {
	if len(ins) == 1 {
		return ins[0].clone()
	}
	var guards []string
	for _, s := range ins {
		guards = append(guards, s.guard)
	}
	out := &State{heaps: map[string]string{}}
	g := u.enc.freshConst("b", "Bool")
	u.assume(eq(g, or(guards...)))
	out.guard = g
	// epoch: max; heaps from states with older epochs materialise their base names
	maxE := 0
	for _, s := range ins {
		if s.epoch > maxE {
			maxE = s.epoch
		}
	}
	out.epoch = maxE
	names := map[string]bool{}
	for _, s := range ins {
		for k := range s.heaps {
			names[k] = true
		}
	}
	differEpoch := false
	for _, s := range ins {
		if s.epoch != maxE {
			differEpoch = true
		}
	}
	if differEpoch {
		// every registered heap may differ
		for k := range u.heapSort {
			names[k] = true
		}
	}
	keys := make([]string, 0, len(names))
	for k := range names {
		keys = append(keys, k)
	}
	sort.Strings(keys)
	for _, k := range keys {
		terms := make([]string, len(ins))
		same := true
		for i, s := range ins {
			if _, ok := u.heapSort[k]; !ok {
				continue
			}
			terms[i] = u.heapCur(s, k)
			if terms[i] != terms[0] {
				same = false
			}
		}
		if _, ok := u.heapSort[k]; !ok {
			continue
		}
		if same {
			if terms[0] != u.heapBase(k, out.epoch) || true {
				out.heaps[k] = terms[0]
			}
			continue
		}
		t := terms[len(ins)-1]
		for i := len(ins) - 2; i >= 0; i-- {
			t = ite(ins[i].guard, terms[i], t)
		}
		c := u.enc.freshConst(k, u.heapSort[k])
		u.assume(eq(c, t))
		out.heaps[k] = c
	}
	return out
}

type pendingAuto struct {
	o   *Obl
	key string
}
