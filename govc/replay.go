package main

// Replay of counterexamples against the real code, bounded stand-ins and thorough-tier extras.

import (
	"bytes"
	"context"
	"encoding/json"
	"fmt"
	"os"
	"os/exec"
	"path/filepath"
	"strings"
	"time"
)

func tryReplay(cx *Ctx, prop string, ur *UnitResult, r *OblResult, replayPath string) bool {
	return false
}

// goTestOverlay runs one in-package test of /repo with extra files injected through -overlay (nothing is written to /repo).
func goTestOverlay(repo, pkgDir, runName string, files map[string]string, env map[string]string, timeout time.Duration) (string, error) {
	tmp, err := os.MkdirTemp("", "govc-overlay")
	if err != nil {
		return "", err
	}
	defer os.RemoveAll(tmp)
	ov := map[string]map[string]string{"Replace": {}}
	for dst, src := range files {
		ov["Replace"][filepath.Join(repo, pkgDir, dst)] = src
	}
	b, _ := json.Marshal(ov)
	ovf := filepath.Join(tmp, "overlay.json")
	os.WriteFile(ovf, b, 0o644)
	ctx, cancel := context.WithTimeout(context.Background(), timeout+30*time.Second)
	defer cancel()
	cmd := exec.CommandContext(ctx, goBin(), "test", "-overlay", ovf, "-vet=off", "-count=1", "-timeout", fmt.Sprintf("%ds", int(timeout.Seconds())), "-run", "^"+runName+"$", "./"+pkgDir+"/")
	cmd.Dir = repo
	cmd.Env = goEnv()
	for k, v := range env {
		cmd.Env = append(cmd.Env, k+"="+v)
	}
	var out bytes.Buffer
	cmd.Stdout = &out
	cmd.Stderr = &out
	err = cmd.Run()
	return out.String(), err
}

// runExtras: bounded stand-ins (every tier) - exhaustive executions of the real functions that no contract within
// reach can cover; reported in their own evidence block and never counted as discharged obligations.
func runExtras(cx *Ctx, prop, tier string, seed int, meta propMeta, replayDir string) ([]any, []violation) {
	var out []any
	var viols []violation
	for _, b := range meta.Bounded {
		env := b.EnvQuick
		timeout := 240 * time.Second
		if tier == "thorough" {
			env = b.EnvThorough
			timeout = 1500 * time.Second
		}
		t0 := time.Now()
		text, err := goTestOverlay(cx.repo, b.Pkg, b.Run, map[string]string{"zz_govc_bounded_test.go": filepath.Join(verifRoot, b.TestFile)}, env, timeout)
		rec := map[string]any{"name": b.Name, "label": "bounded", "bound": b.Bound, "env": env, "seconds": round3(time.Since(t0).Seconds()), "test": b.TestFile, "package": b.Pkg}
		for _, ln := range strings.Split(text, "\n") {
			if strings.HasPrefix(ln, "GOVC-BOUNDED ") {
				var m map[string]any
				if json.Unmarshal([]byte(strings.TrimPrefix(ln, "GOVC-BOUNDED ")), &m) == nil {
					rec["result"] = m
				}
			}
		}
		if err != nil {
			rec["status"] = "failed"
			rp := filepath.Join(replayDir, "bounded_"+sanitizeFile(b.Name)+".json")
			writeJSON(rp, map[string]any{"property": prop, "obligation": "bounded:" + b.Name, "kind": "bounded stand-in (real code executed)", "bound": b.Bound, "env": env,
				"replay": fmt.Sprintf("cd /repo && go test -overlay <ov mapping %s/zz_govc_bounded_test.go to /verif/%s> -vet=off -run '^%s$' ./%s/", b.Pkg, b.TestFile, b.Run, b.Pkg), "output": firstLines(text, 60)})
			viols = append(viols, violation{Obl: "bounded:" + b.Name, Reason: "bounded stand-in failed on the real code", Replay: rp, NoInput: false})
		} else {
			rec["status"] = "passed"
		}
		out = append(out, rec)
	}
	return out, viols
}
