package main

// Replay of counterexamples against the real code, bounded stand-ins and thorough-tier extras.

import (
	"bytes"
	"context"
	"encoding/json"
	"fmt"
	"os"
	"os/exec"
	"path/filepath"
	"strings"
	"time"
)

// tryReplay: concretising a solver model into Go values is not implemented (inputs of the functions under contract
// are heap structures; models of failed obligations are rare because failed obligations are mostly quantified).
var extraOverlay map[string][]byte

func tryReplay(cx *Ctx, prop string, ur *UnitResult, r *OblResult, replayPath string) bool {
	return false
}

// A probe is an in-package Go test with an executable oracle taken from the property statement (a demonstration of
// a repaired defect, a scenario test, or a small exhaustive enumeration). Probes prove nothing and are not run on the
// unchanged tree's happy path: they are executed only after an obligation of the function they are registered for has
// failed, to turn "the verifier rejects this code" into "here is an input on which the real code breaks the property".
type probeSpec struct {
	Funcs []string `json:"funcs"` // substrings of the SSA name of the function under contract
	Pkg   string   `json:"pkg"`   // package directory in /repo
	File  string   `json:"file"`  // test file under /verif
	Run   string   `json:"run"`   // test name
}

func loadProbes() []probeSpec {
	var ps []probeSpec
	b, err := os.ReadFile(filepath.Join(verifRoot, "probes", "index.json"))
	if err == nil {
		json.Unmarshal(b, &ps)
	}
	return ps
}

// runProbes executes, for every function with a failed obligation, the probes registered for it; when one fails the
// replay files of that function's violations get the probe's output and the violations lose "no-failing-input-found".
func runProbes(cx *Ctx, prop string, viols []violation) []map[string]any {
	probes := loadProbes()
	if len(probes) == 0 {
		return nil
	}
	units := map[string]bool{}
	for _, v := range viols {
		if v.NoInput && v.Unit != "" {
			units[v.Unit] = true
		}
	}
	var report []map[string]any
	type res struct {
		failed bool
		out    string
	}
	cache := map[string]res{}
	for unit := range units {
		for _, p := range probes {
			match := false
			for _, f := range p.Funcs {
				if strings.Contains(unit, f) {
					match = true
				}
			}
			if !match {
				continue
			}
			key := p.Pkg + "|" + p.File + "|" + p.Run
			r, ok := cache[key]
			if !ok {
				out, err := goTestOverlay(cx.repo, p.Pkg, p.Run, map[string]string{"zz_govc_probe_test.go": filepath.Join(verifRoot, p.File)}, nil, 120*time.Second)
				r = res{failed: err != nil && strings.Contains(out, "--- FAIL"), out: out}
				cache[key] = r
			}
			report = append(report, map[string]any{"function": unit, "probe": p.File, "test": p.Run, "failed": r.failed})
			if !r.failed {
				continue
			}
			for i := range viols {
				if viols[i].Unit != unit || !viols[i].NoInput {
					continue
				}
				viols[i].NoInput = false
				var m map[string]any
				if b, err := os.ReadFile(viols[i].Replay); err == nil && json.Unmarshal(b, &m) == nil {
					m["failing_input"] = map[string]any{
						"found_by": "probe executed on the real code after the obligation failed (the solver itself returned no model)",
						"probe":    p.File, "test": p.Run, "package": p.Pkg,
						"replay":   fmt.Sprintf("cd /repo && echo '{\"Replace\":{\"/repo/%s/zz_govc_probe_test.go\":\"%s\"}}' > /root/ov.json && go test -overlay /root/ov.json -vet=off -count=1 -run '^%s$' ./%s/", p.Pkg, filepath.Join(verifRoot, p.File), p.Run, p.Pkg),
						"output":   firstLines(r.out, 40),
					}
					writeJSON(viols[i].Replay, m)
				}
			}
		}
	}
	return report
}

// goTestOverlay runs one in-package test of /repo with extra files injected through -overlay (nothing is written to /repo).
func goTestOverlay(repo, pkgDir, runName string, files map[string]string, env map[string]string, timeout time.Duration) (string, error) {
	tmp, err := os.MkdirTemp("", "govc-overlay")
	if err != nil {
		return "", err
	}
	defer os.RemoveAll(tmp)
	ov := map[string]map[string]string{"Replace": {}}
	for dst, src := range files {
		ov["Replace"][filepath.Join(repo, pkgDir, dst)] = src
	}
	// a source overlay given to `govc check --overlay` (development aid) also applies to the executed tests
	k := 0
	for orig, content := range extraOverlay {
		k++
		f := filepath.Join(tmp, fmt.Sprintf("ov%d.go", k))
		os.WriteFile(f, content, 0o644)
		ov["Replace"][orig] = f
	}
	b, _ := json.Marshal(ov)
	ovf := filepath.Join(tmp, "overlay.json")
	os.WriteFile(ovf, b, 0o644)
	ctx, cancel := context.WithTimeout(context.Background(), timeout+30*time.Second)
	defer cancel()
	cmd := exec.CommandContext(ctx, goBin(), "test", "-overlay", ovf, "-vet=off", "-count=1", "-timeout", fmt.Sprintf("%ds", int(timeout.Seconds())), "-run", "^"+runName+"$", "./"+pkgDir+"/")
	cmd.Dir = repo
	cmd.Env = goEnv()
	for k, v := range env {
		cmd.Env = append(cmd.Env, k+"="+v)
	}
	var out bytes.Buffer
	cmd.Stdout = &out
	cmd.Stderr = &out
	err = cmd.Run()
	return out.String(), err
}

// runExtras: bounded stand-ins (every tier) - exhaustive executions of the real functions that no contract within
// reach can cover; reported in their own evidence block and never counted as discharged obligations.
func runExtras(cx *Ctx, prop, tier string, seed int, meta propMeta, replayDir string) ([]any, []violation) {
	var out []any
	var viols []violation
	for _, b := range meta.Bounded {
		env := b.EnvQuick
		timeout := 240 * time.Second
		if tier == "thorough" {
			env = b.EnvThorough
			timeout = 1500 * time.Second
		}
		t0 := time.Now()
		text, err := goTestOverlay(cx.repo, b.Pkg, b.Run, map[string]string{"zz_govc_bounded_test.go": filepath.Join(verifRoot, b.TestFile)}, env, timeout)
		rec := map[string]any{"name": b.Name, "label": "bounded", "bound": b.Bound, "env": env, "seconds": round3(time.Since(t0).Seconds()), "test": b.TestFile, "package": b.Pkg}
		for _, ln := range strings.Split(text, "\n") {
			if strings.HasPrefix(ln, "GOVC-BOUNDED ") {
				var m map[string]any
				if json.Unmarshal([]byte(strings.TrimPrefix(ln, "GOVC-BOUNDED ")), &m) == nil {
					rec["result"] = m
				}
			}
		}
		if err != nil {
			rec["status"] = "failed"
			rp := filepath.Join(replayDir, "bounded_"+sanitizeFile(b.Name)+".json")
			writeJSON(rp, map[string]any{"property": prop, "obligation": "bounded:" + b.Name, "kind": "bounded stand-in (real code executed)", "bound": b.Bound, "env": env,
				"replay": fmt.Sprintf("cd /repo && go test -overlay <ov mapping %s/zz_govc_bounded_test.go to /verif/%s> -vet=off -run '^%s$' ./%s/", b.Pkg, b.TestFile, b.Run, b.Pkg), "output": firstLines(text, 60)})
			viols = append(viols, violation{Obl: "bounded:" + b.Name, Reason: "bounded stand-in failed on the real code", Replay: rp, NoInput: false})
		} else {
			rec["status"] = "passed"
		}
		out = append(out, rec)
	}
	return out, viols
}

// ---- must-fail corpus (thorough tier): mutants of the real code that the contracts are known to reject. Each entry
// replaces one source line (overlay, nothing written to /repo) and re-verifies the function it belongs to; the run
// must reject it again. An entry that verifies ("escaped") means the contract or the engine got weaker: it is
// reported in the evidence and on stdout (SELFTEST-ESCAPED), never as a property violation - the unchanged tree is
// not at fault. Entries whose source line no longer exists are reported as stale.
type corpusEntry struct {
	Prop string `json:"prop"`
	File string `json:"file"`
	Line int    `json:"line"`
	Old  string `json:"old"`
	New  string `json:"new"`
	Op   string `json:"op"`
	Pkg  string `json:"pkg"`
	Func string `json:"func"`
}

func runSelftest(repo, prop string, cs *Contracts, outDir string) map[string]any {
	var all []corpusEntry
	b, err := os.ReadFile(filepath.Join(verifRoot, "selftest", "corpus.json"))
	if err != nil || json.Unmarshal(b, &all) != nil {
		return nil
	}
	var mine []corpusEntry
	for _, e := range all {
		if e.Prop == prop {
			mine = append(mine, e)
		}
	}
	if len(mine) == 0 {
		return nil
	}
	killed, stale := 0, 0
	var escaped []string
	for i, e := range mine {
		src, err := os.ReadFile(filepath.Join(repo, e.File))
		if err != nil {
			stale++
			continue
		}
		lines := strings.Split(string(src), "\n")
		at := -1
		for d := 0; d <= 60 && at < 0; d++ {
			for _, k := range []int{e.Line - 1 - d, e.Line - 1 + d} {
				if k >= 0 && k < len(lines) && lines[k] == e.Old {
					at = k
					break
				}
			}
		}
		if at < 0 {
			stale++
			continue
		}
		lines[at] = e.New
		ov := map[string][]byte{filepath.Join(repo, e.File): []byte(strings.Join(lines, "\n"))}
		cx, err := LoadProgram(repo, []string{"./" + e.Pkg}, ov)
		if err != nil {
			stale++ // the mutant no longer compiles against the current tree
			continue
		}
		cx.indexFunctions()
		cx.cs = cs
		fc := cs.Funcs[fkey(modPath+"/"+e.Pkg, e.Func)]
		var fn = cx.lookupFn(modPath+"/"+e.Pkg, e.Func)
		if fc == nil || fn == nil {
			stale++
			continue
		}
		u, uerr := cx.buildFuncUnit(fn, fc)
		ur := &UnitResult{Unit: u, Name: fn.String()}
		rejected := uerr != nil
		if !rejected {
			d := filepath.Join(outDir, fmt.Sprintf("selftest%d", i))
			os.MkdirAll(d, 0o755)
			solveAll([]*UnitResult{ur}, d, 10, 0, 16)
			for _, r := range ur.Results {
				if !r.OK() {
					rejected = true
				}
			}
			os.RemoveAll(d)
		}
		if rejected {
			killed++
		} else {
			msg := fmt.Sprintf("%s:%d %s [%s] in %s", e.File, at+1, strings.TrimSpace(e.New), e.Op, e.Func)
			escaped = append(escaped, msg)
			fmt.Printf("SELFTEST-ESCAPED property=%s %s\n", prop, msg)
		}
	}
	return map[string]any{"corpus": "selftest/corpus.json", "entries": len(mine), "rejected": killed, "stale": stale, "escaped": escaped}
}
