package main

// Replay of counterexamples against the real code, bounded stand-ins and thorough-tier extras.

func tryReplay(cx *Ctx, prop string, ur *UnitResult, r *OblResult, replayPath string) bool {
	return false
}

func runExtras(cx *Ctx, prop, tier string, seed int, meta propMeta, replayDir string) ([]any, []violation) {
	return nil, nil
}
