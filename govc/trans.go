package main

// Translation of contract expressions to SMT terms.

import (
	"fmt"
	"go/constant"
	"go/token"
	"go/types"
	"strconv"
	"strings"

	"golang.org/x/tools/go/ssa"
)

type Env struct {
	u      *Unit
	softHeader bool // at-call clauses: fall back to the plain lookup when a name is not loop-carried
	vars   map[string]Val
	cur    *State
	old    *State
	pkg    *types.Package
	result []Val
	fr     *Frame // for local-name lookup in invariants
	header *ssa.BasicBlock
	bound  map[string]bool
	specDepth int
	qbind  []string // SMT binder declarations of the enclosing quantifiers
	tpFrame *Frame  // frame whose type parameters are in scope (spec bodies expanded inside generic code)
	loopPre *State  // state on entry to the loop whose invariant is being translated (for pre(...))
}

func (cx *Ctx) typesPkg(path string) *types.Package {
	if p, ok := cx.pkgs[path]; ok {
		return p.Types
	}
	return nil
}

func (e *Env) fail(f string, a ...any) {
	panic(unsupported{"spec: " + fmt.Sprintf(f, a...)})
}

func (e *Env) clone() *Env {
	n := *e
	n.vars = make(map[string]Val, len(e.vars))
	for k, v := range e.vars {
		n.vars[k] = v
	}
	return &n
}

// resolveType evaluates a Go type expression in the package scope. Also: set[T], mathint.
func (e *Env) resolveType(s string) types.Type {
	s = strings.TrimSpace(s)
	if s == "mathint" {
		return types.Typ[types.Int]
	}
	if o := types.Universe.Lookup(s); o != nil {
		if tn, ok := o.(*types.TypeName); ok {
			return tn.Type()
		}
	}
	if e.pkg == nil {
		return nil
	}
	tv, err := types.Eval(e.u.cx.fset, e.pkg, token.NoPos, s)
	if err != nil || !tv.IsType() {
		// try through imports of the package: pkgname.Type
		if i := strings.Index(s, "."); i > 0 && !strings.ContainsAny(s, "[]*( ") {
			pn, tn := s[:i], s[i+1:]
			// file-level import aliases of the annotated package
			if pp, ok := e.u.cx.pkgs[e.pkg.Path()]; ok {
				for _, f := range pp.Syntax {
					for _, is := range f.Imports {
						if is.Name != nil && is.Name.Name == pn {
							path, _ := strconv.Unquote(is.Path.Value)
							if ip, ok := e.u.cx.pkgs[path]; ok && ip.Types != nil {
								if o := ip.Types.Scope().Lookup(tn); o != nil {
									if _, ok := o.(*types.TypeName); ok {
										return o.Type()
									}
								}
							}
						}
					}
				}
			}
			for _, imp := range e.pkg.Imports() {
				if imp.Name() == pn {
					if o := imp.Scope().Lookup(tn); o != nil {
						if _, ok := o.(*types.TypeName); ok {
							return o.Type()
						}
					}
				}
			}
			// any loaded package with that name
			for _, p := range e.u.cx.pkgs {
				if p.Types != nil && p.Types.Name() == pn {
					if o := p.Types.Scope().Lookup(tn); o != nil {
						if _, ok := o.(*types.TypeName); ok {
							return o.Type()
						}
					}
				}
			}
		}
		if strings.HasPrefix(s, "*") {
			if t := e.resolveType(s[1:]); t != nil {
				return types.NewPointer(t)
			}
		}
		// generic named type written with type arguments, e.g. item[V]: every instance is identified with the generic type
		if i := strings.Index(s, "["); i > 0 && strings.HasSuffix(s, "]") && !strings.ContainsAny(s[:i], "*( ") {
			if t := e.resolveType(s[:i]); t != nil {
				if n, ok := types.Unalias(t).(*types.Named); ok && n.TypeParams().Len() > 0 {
					return n
				}
			}
		}
		if strings.HasPrefix(s, "[]") {
			if t := e.resolveType(s[2:]); t != nil {
				return types.NewSlice(t)
			}
		}
		return nil
	}
	return tv.Type
}

// specSort: sort for a spec-level type string (Go type, or set[T])
func (e *Env) specSort(s string) (string, types.Type) {
	s = strings.TrimSpace(s)
	if strings.HasPrefix(s, "set[") && strings.HasSuffix(s, "]") {
		ks, _ := e.specSort(s[4 : len(s)-1])
		return "(Array " + ks + " Bool)", nil
	}
	if strings.HasPrefix(s, "arr[") {
		// arr[K]V : SMT array
		depth := 0
		for i := 3; i < len(s); i++ {
			if s[i] == '[' {
				depth++
			}
			if s[i] == ']' {
				depth--
				if depth == 0 {
					ks, _ := e.specSort(s[4:i])
					vs, _ := e.specSort(s[i+1:])
					return "(Array " + ks + " " + vs + ")", nil
				}
			}
		}
	}
	if s == "seq" {
		return "RSeq", nil
	}
	switch s {
	case "Int", "mathint", "time":
		return "Int", types.Typ[types.Int]
	case "Bool":
		return "Bool", types.Typ[types.Bool]
	case "Str":
		return "Str", types.Typ[types.String]
	}
	if s == "_" {
		return "_", nil
	}
	t := e.resolveType(s)
	if t == nil {
		// a type parameter of the function under contract (generic code is verified once, opaque V)
		tf := e.fr
		if tf == nil {
			tf = e.tpFrame
		}
		for fr := tf; fr != nil; fr = fr.parent {
			tps := fr.fn.TypeParams()
			for i := 0; tps != nil && i < tps.Len(); i++ {
				if tps.At(i).Obj().Name() == s {
					return "Int", tps.At(i)
				}
			}
		}
		if len(s) == 1 && s[0] >= 'A' && s[0] <= 'Z' {
			return "Int", nil
		}
		e.fail("unknown type %q", s)
	}
	return e.u.enc.sortOf(t), t
}

func (e *Env) trBool(x Expr) string {
	v := e.tr(x)
	if v.S != "Bool" {
		e.fail("expected boolean: %s (sort %s)", x, v.S)
	}
	return v.T
}

func (e *Env) state() *State { return e.cur }

func (e *Env) lookupIdent(name string) (Val, bool) {
	if v, ok := e.vars[name]; ok {
		// a parameter that the loop reassigns: inside a clause of that loop the name means the loop-carried value
		// (the entry value is old(name))
		if e.fr != nil && e.header != nil {
			for _, p := range e.fr.fn.Params {
				if p.Name() != name {
					continue
				}
				if pv, have := e.fr.vals[p]; !have || pv.T != v.T {
					break
				}
				for _, in := range e.header.Instrs {
					phi, ok := in.(*ssa.Phi)
					if !ok {
						break
					}
					if phi.Comment == name {
						if hv, ok := e.fr.vals[phi]; ok {
							return hv, true
						}
					}
				}
			}
		}
		return v, true
	}
	if e.fr != nil {
		v, ok := e.fr.lookupLocal(name, e.header)
		if !ok && e.header != nil && e.softHeader {
			// at-call clauses: a variable defined inside the loop body (a range value, say) is not loop-carried
			v, ok = e.fr.lookupLocal(name, nil)
		}
		if ok {
			if e.fr.lastLookupAddr {
				// the variable lives in memory (address-taken or named result with defers): read its current value
				if pt, ok := v.Ty.Underlying().(*types.Pointer); ok {
					return e.u.load(e.cur, v, pt.Elem()), true
				}
			}
			return v, true
		}
	}
	// package-level constant or variable
	if e.pkg != nil {
		if o := e.pkg.Scope().Lookup(name); o != nil {
			switch c := o.(type) {
			case *types.Const:
				return e.constVal(c), true
			case *types.Var:
				nm := "G$" + e.pkg.Name() + "." + name
				e.u.regHeap(nm, "(Array Int "+e.u.enc.sortOf(c.Type())+")")
				return Val{T: sel(e.u.heapCur(e.cur, nm), "0"), S: e.u.enc.sortOf(c.Type()), Ty: c.Type()}, true
			}
		}
	}
	return Val{}, false
}

func (e *Env) constVal(c *types.Const) Val {
	u := e.u
	t := c.Type()
	switch c.Val().Kind() {
	case constant.Bool:
		return Val{T: fmt.Sprint(constant.BoolVal(c.Val())), S: "Bool", Ty: t}
	case constant.String:
		return Val{T: u.enc.strLit(constant.StringVal(c.Val())), S: "Str", Ty: t}
	case constant.Int:
		n, _ := constant.Int64Val(c.Val())
		return Val{T: intLit(n), S: "Int", Ty: t}
	}
	e.fail("unsupported constant %s", c.Name())
	return Val{}
}

// lookupLocal finds a local variable by source name: prefers the loop-header phi.
func (fr *Frame) lookupLocal(name string, header *ssa.BasicBlock) (Val, bool) {
	fr.lastLookupAddr = false
	// phi comment (rangeindex) or named phi in header
	if header != nil {
		for _, in := range header.Instrs {
			phi, ok := in.(*ssa.Phi)
			if !ok {
				break
			}
			if phi.Comment == name {
				if v, ok := fr.vals[phi]; ok {
					return v, true
				}
			}
		}
	}
	// rangeindex<k>: the hidden index of the range loop with ordinal k (for invariants of nested loops)
	if strings.HasPrefix(name, "rangeindex") && len(name) > len("rangeindex") {
		if k, err := strconv.Atoi(name[len("rangeindex"):]); err == nil && k >= 1 && k <= len(fr.loops) {
			for _, in := range fr.loops[k-1].Instrs {
				phi, ok := in.(*ssa.Phi)
				if !ok {
					break
				}
				if phi.Comment == "rangeindex" {
					if v, ok := fr.vals[phi]; ok {
						return v, true
					}
					// the loop has not been entered on any path generated so far: unconstrained value
					return Val{T: fr.u.enc.freshConst("rangeindex_unset", "Int"), S: "Int", Ty: types.Typ[types.Int]}, true
				}
			}
		}
	}
	for _, p := range fr.fn.Params {
		if p.Name() == name {
			v, ok := fr.vals[p]
			return v, ok
		}
	}
	for _, p := range fr.fn.FreeVars {
		if p.Name() == name {
			v, ok := fr.vals[p]
			if ok && v.Loc == nil && v.T != "" {
				// captured variables are pointers to the variable; expose the pointee value for convenience
			}
			return v, ok
		}
	}
	// variables that live in memory (address-taken locals, named results of functions with defers): the Alloc carries the name
	for _, b := range fr.fn.Blocks {
		for _, in := range b.Instrs {
			if al, ok := in.(*ssa.Alloc); ok && al.Comment == name {
				if v, have := fr.vals[al]; have {
					fr.lastLookupAddr = true
					if v.Ty == nil {
						v.Ty = al.Type()
					}
					return v, true
				}
			}
		}
	}
	// search DebugRefs: value bound to a variable of this name. Prefer a phi of the loop header, else the
	// latest definition that dominates the header, else a constant initialiser.
	var best ssa.Value
	bestAddr := false
	var constBest ssa.Value
	for _, b := range fr.fn.Blocks {
		for _, in := range b.Instrs {
			d, ok := in.(*ssa.DebugRef)
			if !ok {
				continue
			}
			obj := d.Object()
			if obj == nil || obj.Name() != name {
				continue
			}
			if _, isVar := obj.(*types.Var); !isVar {
				continue
			}
			x := d.X
			if _, isConst := x.(*ssa.Const); isConst {
				if constBest == nil {
					constBest = x
				}
				continue
			}
			if _, have := fr.vals[x]; !have {
				continue
			}
			if phi, ok := x.(*ssa.Phi); ok && header != nil && phi.Block() == header {
				return fr.vals[phi], true
			}
			if header != nil {
				if xi, ok := x.(ssa.Instruction); ok && xi.Block() != nil && !xi.Block().Dominates(header) {
					continue
				}
			}
			// of two candidates that both dominate the header, the one defined deeper in the dominator tree is the value
			// the variable has there (e.g. the phi of an enclosing inner loop rather than that of the outermost loop)
			if best != nil && header != nil {
				bi, ok1 := best.(ssa.Instruction)
				xi, ok2 := x.(ssa.Instruction)
				if ok1 && ok2 && bi.Block() != nil && xi.Block() != nil && bi.Block() != xi.Block() && xi.Block().Dominates(bi.Block()) {
					continue
				}
			}
			best = x
			bestAddr = d.IsAddr
		}
	}
	if best != nil {
		fr.lastLookupAddr = bestAddr
		v := fr.get(best)
		if v.Ty == nil {
			v.Ty = best.Type()
		}
		return v, true
	}
	if constBest != nil {
		return fr.get(constBest), true
	}
	return Val{}, false
}

func (fr *Frame) derefIfAddr(d *ssa.DebugRef, v Val) Val { return v }

func (e *Env) tr(x Expr) Val {
	u := e.u
	switch n := x.(type) {
	case *EInt:
		return Val{T: n.V, S: "Int", Ty: types.Typ[types.Int]}
	case *EBool:
		return Val{T: fmt.Sprint(n.V), S: "Bool", Ty: types.Typ[types.Bool]}
	case *EStr:
		return Val{T: u.enc.strLit(n.V), S: "Str", Ty: types.Typ[types.String]}
	case *ENil:
		return Val{T: "0", S: "Int"}
	case *EIdent:
		if v, ok := e.lookupIdent(n.Name); ok {
			return v
		}
		// zero-arg spec function / uf
		if _, ok := u.cx.cs.Specs[n.Name]; ok {
			return e.trCall(&ECall{Fn: n.Name})
		}
		e.fail("unknown identifier %q", n.Name)
	case *EOld:
		if e.old == nil {
			e.fail("old() not available here")
		}
		sub := e.clone()
		sub.cur = e.old
		sub.header = nil
		return sub.tr(n.X)
	case *ELet:
		v := e.tr(n.V)
		sub := e.clone()
		sub.vars[n.Name] = v
		return sub.tr(n.B)
	case *EUnary:
		v := e.tr(n.X)
		if n.Op == "!" {
			if v.S != "Bool" {
				e.fail("! on non-bool %s", n.X)
			}
			return Val{T: not(v.T), S: "Bool", Ty: types.Typ[types.Bool]}
		}
		return Val{T: app("-", v.T), S: v.S, Ty: v.Ty}
	case *ECond:
		c := e.trBool(n.C)
		a, b := e.tr(n.A), e.tr(n.B)
		return Val{T: ite(c, a.T, b.T), S: a.S, Ty: a.Ty}
	case *EBinary:
		return e.trBinary(n)
	case *EQuant:
		return e.trQuant(n)
	case *EField:
		// package-qualified constant?  pkg.Name
		if id, ok := n.X.(*EIdent); ok {
			if _, isVar := e.lookupIdent(id.Name); !isVar {
				if v, ok := e.qualified(id.Name, n.Name); ok {
					return v
				}
			}
		}
		v := e.tr(n.X)
		return e.field(v, n.Name)
	case *EIndex:
		return e.trIndex(n)
	case *ECall:
		return e.trCall(n)
	case *EMethod:
		return e.trMethod(n)
	}
	e.fail("cannot translate %s", x)
	return Val{}
}

func (e *Env) qualified(pkgName, name string) (Val, bool) {
	var cands []*types.Package
	if e.pkg != nil {
		for _, imp := range e.pkg.Imports() {
			if imp.Name() == pkgName {
				cands = append(cands, imp)
			}
		}
	}
	if len(cands) == 0 {
		for _, p := range e.u.cx.pkgs {
			if p.Types != nil && p.Types.Name() == pkgName {
				cands = append(cands, p.Types)
			}
		}
	}
	for _, p := range cands {
		if o := p.Scope().Lookup(name); o != nil {
			switch c := o.(type) {
			case *types.Const:
				return e.constVal(c), true
			case *types.Var:
				nm := "G$" + p.Name() + "." + name
				e.u.regHeap(nm, "(Array Int "+e.u.enc.sortOf(c.Type())+")")
				return Val{T: sel(e.u.heapCur(e.cur, nm), "0"), S: e.u.enc.sortOf(c.Type()), Ty: c.Type()}, true
			}
		}
	}
	return Val{}, false
}

// closureFact: a reference read from an allocated object (or from a map entry) is itself an allocated reference.
// Emitted as a standalone assumption for every reference-typed read in a contract expression.
func (e *Env) closureFact(v Val, guard string) {
	u := e.u
	if u.dry > 0 || v.Ty == nil || v.T == "" {
		return
	}
	var t string
	switch refKind(v.Ty) {
	case "ref":
		t = v.T
	case "slice":
		t = app("sl_base", v.T)
	default:
		return
	}
	alloc := u.heapCur(e.cur, "$alloc")
	body := implies(guard, app("<=", t, alloc))
	key := body
	if u.closureSeen[key] {
		return
	}
	u.closureSeen[key] = true
	// bind only the quantified variables the fact mentions; the pattern must mention all of them
	var binds []string
	patOK := true
	for _, b := range e.qbind {
		name := strings.TrimPrefix(strings.SplitN(b, " ", 2)[0], "(")
		if strings.Contains(body, name) {
			binds = append(binds, b)
			if !strings.Contains(t, name) {
				patOK = false
			}
		}
	}
	if len(binds) == 0 {
		u.assume(body)
		return
	}
	if patOK && !strings.Contains(t, "(ite ") {
		u.assume(fmt.Sprintf("(forall (%s) (! %s :pattern (%s)))", strings.Join(binds, " "), body, t))
	} else {
		u.assume(fmt.Sprintf("(forall (%s) %s)", strings.Join(binds, " "), body))
	}
}

// findField returns the index path to a (possibly promoted) field.
func findField(t types.Type, name string, depth int) ([]int, bool) {
	t = types.Unalias(t)
	if p, ok := t.Underlying().(*types.Pointer); ok {
		t = p.Elem()
	}
	t = canon(t)
	s, ok := t.Underlying().(*types.Struct)
	if !ok || depth > 4 || isTime(t) || opaqueStruct(t) {
		return nil, false
	}
	for i := 0; i < s.NumFields(); i++ {
		if s.Field(i).Name() == name {
			return []int{i}, true
		}
	}
	for i := 0; i < s.NumFields(); i++ {
		if s.Field(i).Embedded() {
			if p, ok := findField(s.Field(i).Type(), name, depth+1); ok {
				return append([]int{i}, p...), true
			}
		}
	}
	return nil, false
}

// field value x.name (auto-deref, promoted fields)
func (e *Env) field(v Val, name string) Val {
	u := e.u
	if v.Ty == nil {
		e.fail("field %s of untyped value", name)
	}
	path, ok := findField(v.Ty, name, 0)
	if !ok {
		e.fail("no field %s in %s", name, v.Ty)
	}
	cur := v
	for _, i := range path {
		t := types.Unalias(cur.Ty)
		if p, ok := t.Underlying().(*types.Pointer); ok {
			stT := p.Elem()
			loc := u.fieldLoc(cur, stT, i)
			ft := loc.Ty
			prev := cur
			cur = Val{T: u.readLoc(e.cur, loc), S: u.enc.sortOf(ft), Ty: ft}
			if prev.Loc == nil && prev.T != "" {
				e.closureFact(cur, app("<=", prev.T, u.heapCur(e.cur, "$alloc")))
			}
		} else {
			t = canon(t)
			s := t.Underlying().(*types.Struct)
			u.enc.sortOf(t)
			ft := s.Field(i).Type()
			cur = Val{T: app(u.enc.accessor(t, i), cur.T), S: u.enc.sortOf(ft), Ty: ft}
			// a reference held inside a Go struct value is an allocated one
			e.closureFact(cur, "true")
		}
	}
	return cur
}

// fieldLocOf: location of x.name where x is a pointer (for assigns)
func (e *Env) fieldLocOf(v Val, name string) *Loc {
	u := e.u
	if v.Ty == nil {
		return nil
	}
	path, ok := findField(v.Ty, name, 0)
	if !ok {
		return nil
	}
	cur := v
	var loc *Loc
	for k, i := range path {
		t := types.Unalias(cur.Ty)
		p, ok := t.Underlying().(*types.Pointer)
		if !ok {
			return nil
		}
		stT := p.Elem()
		loc = u.fieldLoc(cur, stT, i)
		ft := stT.Underlying().(*types.Struct).Field(i).Type()
		if k < len(path)-1 {
			if _, isPtr := ft.Underlying().(*types.Pointer); isPtr {
				cur = Val{T: u.readLoc(e.cur, loc), S: "Int", Ty: ft}
			} else {
				cur = Val{Loc: loc, Ty: types.NewPointer(ft)}
			}
		}
	}
	return loc
}

func (e *Env) trIndex(n *EIndex) Val {
	u := e.u
	x := e.tr(n.X)
	i := e.tr(n.I)
	if x.Ty == nil {
		// spec-level array (set or map array)
		if strings.HasPrefix(x.S, "(Array ") {
			rs := arrayRange(x.S)
			return Val{T: sel(x.T, i.T), S: rs}
		}
		e.fail("index of untyped value %s", n.X)
	}
	switch t := x.Ty.Underlying().(type) {
	case *types.Slice:
		h := u.arrHeap(t.Elem())
		r := Val{T: sel(sel(u.heapCur(e.cur, h), app("sl_base", x.T)), app("ix", app("sl_off", x.T), i.T)), S: u.enc.sortOf(t.Elem()), Ty: t.Elem()}
		e.closureFact(r, and(app("<=", app("sl_base", x.T), u.heapCur(e.cur, "$alloc")), app("<=", "0", i.T), app("<", i.T, app("sl_len", x.T))))
		return r
	case *types.Map:
		dom, val, _, _ := u.mapHeaps(t)
		r := Val{T: sel(sel(u.heapCur(e.cur, val), x.T), i.T), S: u.enc.sortOf(t.Elem()), Ty: t.Elem()}
		e.closureFact(r, and(app("<=", x.T, u.heapCur(e.cur, "$alloc")), sel(sel(u.heapCur(e.cur, dom), x.T), i.T)))
		return r
	case *types.Array:
		return Val{T: sel(x.T, i.T), S: u.enc.sortOf(t.Elem()), Ty: t.Elem()}
	}
	e.fail("cannot index %s", x.Ty)
	return Val{}
}

func arrayRange(s string) string {
	// "(Array K V)" -> V   (K has no spaces unless parenthesised)
	inner := strings.TrimSuffix(strings.TrimPrefix(s, "(Array "), ")")
	depth := 0
	inq := false
	for i := 0; i < len(inner); i++ {
		switch inner[i] {
		case '|':
			inq = !inq
		case '(':
			if !inq {
				depth++
			}
		case ')':
			if !inq {
				depth--
			}
		case ' ':
			if depth == 0 && !inq {
				return inner[i+1:]
			}
		}
	}
	return inner
}

func arrayDomain(s string) string {
	inner := strings.TrimSuffix(strings.TrimPrefix(s, "(Array "), ")")
	depth := 0
	inq := false
	for i := 0; i < len(inner); i++ {
		switch inner[i] {
		case '|':
			inq = !inq
		case '(':
			if !inq {
				depth++
			}
		case ')':
			if !inq {
				depth--
			}
		case ' ':
			if depth == 0 && !inq {
				return inner[:i]
			}
		}
	}
	return inner
}

func (e *Env) trBinary(n *EBinary) Val {
	u := e.u
	boolT := types.Typ[types.Bool]
	switch n.Op {
	case "&&":
		return Val{T: and(e.trBool(n.X), e.trBool(n.Y)), S: "Bool", Ty: boolT}
	case "||":
		return Val{T: or(e.trBool(n.X), e.trBool(n.Y)), S: "Bool", Ty: boolT}
	case "==>":
		return Val{T: implies(e.trBool(n.X), e.trBool(n.Y)), S: "Bool", Ty: boolT}
	case "<==>":
		return Val{T: eq(e.trBool(n.X), e.trBool(n.Y)), S: "Bool", Ty: boolT}
	case "in":
		k := e.tr(n.X)
		m := e.tr(n.Y)
		if m.Ty != nil {
			if mt, ok := m.Ty.Underlying().(*types.Map); ok {
				dom, _, _, _ := u.mapHeaps(mt)
				return Val{T: sel(sel(u.heapCur(e.cur, dom), m.T), k.T), S: "Bool", Ty: boolT}
			}
		}
		if strings.HasPrefix(m.S, "(Array ") {
			return Val{T: sel(m.T, k.T), S: "Bool", Ty: boolT}
		}
		e.fail("'in' needs a map or set: %s", n.Y)
	case "==", "!=":
		var t string
		_, xnil := n.X.(*ENil)
		_, ynil := n.Y.(*ENil)
		a, b := e.tr(n.X), e.tr(n.Y)
		switch {
		case a.S == "Slice" && ynil:
			t = eq(app("sl_base", a.T), "0")
		case b.S == "Slice" && xnil:
			t = eq(app("sl_base", b.T), "0")
		case a.Loc != nil || b.Loc != nil:
			t = "false"
		default:
			if a.S != b.S {
				e.fail("comparing %s (%s) with %s (%s)", n.X, a.S, n.Y, b.S)
			}
			t = eq(a.T, b.T)
		}
		if n.Op == "!=" {
			t = not(t)
		}
		return Val{T: t, S: "Bool", Ty: boolT}
	case "<", "<=", ">", ">=":
		a, b := e.tr(n.X), e.tr(n.Y)
		if a.S == "Str" && b.S == "Str" {
			f := e.u.strLt()
			switch n.Op {
			case "<":
				return Val{T: app(f, a.T, b.T), S: "Bool", Ty: boolT}
			case ">":
				return Val{T: app(f, b.T, a.T), S: "Bool", Ty: boolT}
			case "<=":
				return Val{T: not(app(f, b.T, a.T)), S: "Bool", Ty: boolT}
			default:
				return Val{T: not(app(f, a.T, b.T)), S: "Bool", Ty: boolT}
			}
		}
		if a.S != b.S || (a.S != "Int" && a.S != "Real") {
			e.fail("ordering comparison on %s / %s in %s", a.S, b.S, n)
		}
		return Val{T: app(n.Op, a.T, b.T), S: "Bool", Ty: boolT}
	case "+", "-", "*":
		a, b := e.tr(n.X), e.tr(n.Y)
		if a.S == "Str" && n.Op == "+" {
			return Val{T: app("str_concat", a.T, b.T), S: "Str", Ty: a.Ty}
		}
		return Val{T: app(n.Op, a.T, b.T), S: a.S, Ty: a.Ty}
	case "/":
		a, b := e.tr(n.X), e.tr(n.Y)
		return Val{T: truncDiv(a.T, b.T), S: a.S, Ty: a.Ty}
	case "%":
		a, b := e.tr(n.X), e.tr(n.Y)
		return Val{T: app("-", a.T, app("*", b.T, truncDiv(a.T, b.T))), S: a.S, Ty: a.Ty}
	}
	e.fail("operator %s", n.Op)
	return Val{}
}

func (e *Env) trQuant(n *EQuant) Val {
	u := e.u
	sub := e.clone()
	var binders []string
	var guards []string
	for _, v := range n.Vars {
		srt, ty := e.specSort(v.Type)
		nm := fmt.Sprintf("%s!q%d", v.Name, u.enc.fresh)
		u.enc.fresh++
		nm = q(nm)
		binders = append(binders, fmt.Sprintf("(%s %s)", nm, srt))
		sub.qbind = append(append([]string{}, sub.qbind...), fmt.Sprintf("(%s %s)", nm, srt))
		sub.vars[v.Name] = Val{T: nm, S: srt, Ty: ty}
		if ty != nil {
			switch ut := ty.Underlying().(type) {
			case *types.Pointer:
				// relativise to allocated objects
				guards = append(guards, and(app("<", "0", nm), app("<=", nm, u.heapCur(e.cur, "$alloc"))))
			case *types.Basic:
				if ut.Info()&types.IsUnsigned != 0 {
					guards = append(guards, app(">=", nm, "0"))
				}
			}
		}
	}
	body := sub.trBool(n.Body)
	g := and(guards...)
	var pats string
	for _, p := range n.Pats {
		var ts []string
		for _, pe := range p {
			ts = append(ts, sub.tr(pe).T)
		}
		pats += " :pattern (" + strings.Join(ts, " ") + ")"
	}
	kw := "forall"
	inner := implies(g, body)
	if !n.Forall {
		kw = "exists"
		inner = and(g, body)
	}
	if pats != "" {
		inner = "(! " + inner + pats + ")"
	}
	return Val{T: fmt.Sprintf("(%s (%s) %s)", kw, strings.Join(binders, " "), inner), S: "Bool", Ty: types.Typ[types.Bool]}
}

func (e *Env) trCall(n *ECall) Val {
	u := e.u
	boolT := types.Typ[types.Bool]
	intT := types.Typ[types.Int]
	args := func() []Val {
		var out []Val
		for _, a := range n.Args {
			out = append(out, e.tr(a))
		}
		return out
	}
	switch n.Fn {
	case "len":
		a := e.tr(n.Args[0])
		if a.Ty != nil {
			switch t := a.Ty.Underlying().(type) {
			case *types.Slice:
				return Val{T: app("sl_len", a.T), S: "Int", Ty: intT}
			case *types.Map:
				dom, _, ks, _ := u.mapHeaps(t)
				d := sel(u.heapCur(e.cur, dom), a.T)
				if u.dry == 0 {
					u.cardFacts(ks, d) // len == 0 exactly for the empty map
				}
				return Val{T: u.card(ks, d), S: "Int", Ty: intT}
			case *types.Basic:
				return Val{T: app("str_len", a.T), S: "Int", Ty: intT}
			}
		}
		if strings.HasPrefix(a.S, "(Array ") && arrayRange(a.S) == "Bool" {
			return Val{T: u.card(arrayDomain(a.S), a.T), S: "Int", Ty: intT}
		}
		e.fail("len of %s", n.Args[0])
	case "cap":
		a := e.tr(n.Args[0])
		if a.Ty != nil {
			if _, isChan := a.Ty.Underlying().(*types.Chan); isChan {
				return Val{T: app(u.chanCapFn(), a.T), S: "Int", Ty: intT}
			}
		}
		return Val{T: app("sl_cap", a.T), S: "Int", Ty: intT}
	case "nrunes": // number of code points of a string
		a := e.tr(n.Args[0])
		return Val{T: app("str_nrunes", a.T), S: "Int", Ty: intT}
	case "seq": // the sequence of elements of a slice of references
		a := e.tr(n.Args[0])
		st, ok := a.Ty.Underlying().(*types.Slice)
		if !ok || u.enc.sortOf(st.Elem()) != "Int" {
			e.fail("seq() needs a slice of references or integers")
		}
		h := u.arrHeap(st.Elem())
		return Val{T: app("slice_seq", sel(u.heapCur(e.cur, h), app("sl_base", a.T)), app("sl_off", a.T), app("sl_len", a.T)), S: "RSeq"}
	case "zone": // the location a time value carries (parameters: the location the caller's value carries)
		a := e.tr(n.Args[0])
		return Val{T: u.zoneOf(a), S: "Int", Ty: u.zoneTy()}
	case "utc":
		return Val{T: u.zoneConst("zone_utc"), S: "Int", Ty: u.zoneTy()}
	case "at": // the instant t seen in location z
		a := e.tr(n.Args[0])
		z := e.tr(n.Args[1])
		return zoned(a, z.T)
	case "cell": // current content of the memory cell of an address-taken variable (e.g. a parameter captured by a closure)
		id, ok := n.Args[0].(*EIdent)
		fr := e.fr
		if fr == nil {
			fr = e.tpFrame
		}
		if !ok || fr == nil {
			e.fail("cell(name) needs a variable name inside a function")
		}
		for _, b := range fr.fn.Blocks {
			for _, in := range b.Instrs {
				if al, ok := in.(*ssa.Alloc); ok && al.Comment == id.Name {
					if v, have := fr.vals[al]; have {
						if v.Ty == nil {
							v.Ty = al.Type()
						}
						return u.load(e.cur, v, al.Type().Underlying().(*types.Pointer).Elem())
					}
				}
			}
		}
		e.fail("cell(%s): no address-taken variable of that name", id.Name)
	case "elems": // the set of elements of a slice
		a := e.tr(n.Args[0])
		st, ok := a.Ty.Underlying().(*types.Slice)
		if !ok {
			e.fail("elems() needs a slice")
		}
		h := u.arrHeap(st.Elem())
		es := u.enc.sortOf(st.Elem())
		return Val{T: app(u.sliceElems(es), sel(u.heapCur(e.cur, h), app("sl_base", a.T)), app("sl_off", a.T), app("sl_len", a.T)), S: "(Array " + es + " Bool)"}
	case "seq_nil":
		return Val{T: "seq_nil", S: "RSeq"}
	case "single":
		a := e.tr(n.Args[0])
		return Val{T: app("seq_single", a.T), S: "RSeq"}
	case "concat":
		as := args()
		return Val{T: app("seq_concat", as[0].T, as[1].T), S: "RSeq"}
	case "base": // backing array identity of a slice
		a := e.tr(n.Args[0])
		return Val{T: app("sl_base", a.T), S: "Int", Ty: intT}
	case "dom":
		a := e.tr(n.Args[0])
		mt, ok := a.Ty.Underlying().(*types.Map)
		if !ok {
			e.fail("dom of non-map")
		}
		dom, _, ks, _ := u.mapHeaps(mt)
		return Val{T: sel(u.heapCur(e.cur, dom), a.T), S: "(Array " + ks + " Bool)"}
	case "vals":
		a := e.tr(n.Args[0])
		mt, ok := a.Ty.Underlying().(*types.Map)
		if !ok {
			e.fail("vals of non-map")
		}
		_, val, ks, vs := u.mapHeaps(mt)
		return Val{T: sel(u.heapCur(e.cur, val), a.T), S: "(Array " + ks + " " + vs + ")"}
	case "upd":
		as := args()
		return Val{T: sto(as[0].T, as[1].T, as[2].T), S: as[0].S}
	case "str": // string value of a []byte
		a := e.tr(n.Args[0])
		st, ok := a.Ty.Underlying().(*types.Slice)
		if !ok {
			e.fail("str() of non-slice")
		}
		return Val{T: u.strOfBytes(e.cur, a.T, st.Elem()), S: "Str", Ty: types.Typ[types.String]}
	case "pre": // value of an expression in the state in which the current loop was entered
		if e.loopPre == nil {
			e.fail("pre() is only available in loop invariants")
		}
		sub := e.clone()
		sub.cur = e.loopPre
		return sub.tr(n.Args[0])
	case "deref":
		a := e.tr(n.Args[0])
		pt, ok := a.Ty.Underlying().(*types.Pointer)
		if !ok {
			e.fail("deref of non-pointer")
		}
		return u.load(e.cur, a, pt.Elem())
	case "setadd":
		as := args()
		return Val{T: sto(as[0].T, as[1].T, "true"), S: as[0].S}
	case "setrem":
		as := args()
		return Val{T: sto(as[0].T, as[1].T, "false"), S: as[0].S}
	case "emptyset":
		// emptyset(T)
		id, ok := n.Args[0].(*EIdent)
		if !ok {
			e.fail("emptyset(T)")
		}
		ks, _ := e.specSort(id.Name)
		return Val{T: u.emptySet(ks), S: "(Array " + ks + " Bool)"}
	case "called":
		s, ok := n.Args[0].(*EStr)
		if !ok {
			e.fail("called(\"pattern\")")
		}
		g := "$called:" + s.V
		u.regHeap(g, "Bool")
		return Val{T: u.heapCur(e.cur, g), S: "Bool", Ty: boolT}
	case "ret", "ret1", "ret2", "ret3", "first":
		s, ok := n.Args[0].(*EStr)
		if !ok {
			e.fail("ret(\"pattern\")")
		}
		k := map[string]int{"ret": 0, "ret1": 1, "ret2": 2, "ret3": 3, "first": 0}[n.Fn]
		g := fmt.Sprintf("$ret:%s:%d", s.V, k)
		if n.Fn == "first" {
			g = fmt.Sprintf("$first:%s:0", s.V)
		}
		srt, ok2 := u.heapSort[g]
		if !ok2 {
			e.fail("ret(%q): no such call seen yet", s.V)
		}
		return Val{T: u.heapCur(e.cur, g), S: srt, Ty: u.ghostTy[g]}
	case "count", "counttrue0", "counttrue1", "countnil0", "countnil1", "countnil2":
		s, ok := n.Args[0].(*EStr)
		if !ok {
			e.fail("count(\"pattern\")")
		}
		g := "$count:" + s.V
		if n.Fn == "counttrue0" {
			g = "$cnttrue:" + s.V + ":0"
		} else if n.Fn == "counttrue1" {
			g = "$cnttrue:" + s.V + ":1"
		} else if strings.HasPrefix(n.Fn, "countnil") {
			g = "$cntnil:" + s.V + ":" + n.Fn[len("countnil"):]
		}
		u.regHeap(g, "Int")
		return Val{T: u.heapCur(e.cur, g), S: "Int", Ty: intT}
	case "samefields": // samefields(a, b, "F1", ...): a and b (pointers to the same struct type) agree on every exported field except the listed ones
		if len(n.Args) < 2 {
			e.fail("samefields(a, b, \"Except\"...)")
		}
		a, b := e.tr(n.Args[0]), e.tr(n.Args[1])
		pa, ok := types.Unalias(a.Ty).Underlying().(*types.Pointer)
		if !ok {
			e.fail("samefields needs pointers to a struct")
		}
		stt, ok := pa.Elem().Underlying().(*types.Struct)
		if !ok {
			e.fail("samefields needs pointers to a struct")
		}
		skip := map[string]bool{}
		for _, x := range n.Args[2:] {
			sx, ok := x.(*EStr)
			if !ok {
				e.fail("samefields: field names are string literals")
			}
			if _, found := findField(a.Ty, sx.V, 0); !found {
				e.fail("samefields: no field %s in %s", sx.V, a.Ty)
			}
			skip[sx.V] = true
		}
		cs := []string{}
		for i := 0; i < stt.NumFields(); i++ {
			f := stt.Field(i)
			if !f.Exported() || skip[f.Name()] {
				continue
			}
			cs = append(cs, eq(e.field(a, f.Name()).T, e.field(b, f.Name()).T))
		}
		if len(cs) == 0 {
			e.fail("samefields: no field left to compare")
		}
		return Val{T: and(cs...), S: "Bool", Ty: types.Typ[types.Bool]}
	case "allocbefore": // allocbefore("pat"): the allocation counter recorded at the last call matching pat is not ahead of the current one (for loop invariants that carry allocsince facts)
		sx, ok := n.Args[0].(*EStr)
		if !ok {
			e.fail("allocbefore(\"pattern\")")
		}
		g := "$count:allocat:" + sx.V
		u.regHeap(g, "Int")
		return Val{T: app("<=", u.heapCur(e.cur, g), u.heapCur(e.cur, "$alloc")), S: "Bool", Ty: types.Typ[types.Bool]}
	case "allocsince": // allocsince("pat", x): the object x refers to (a slice's backing array) was allocated after the last call matching pat returned
		s, ok := n.Args[0].(*EStr)
		if !ok || len(n.Args) != 2 {
			e.fail("allocsince(\"pattern\", x)")
		}
		g := "$count:allocat:" + s.V
		u.regHeap(g, "Int")
		a := e.tr(n.Args[1])
		t := a.T
		if a.S == "Slice" {
			t = app("sl_base", a.T)
		}
		// (the recorded counter is an earlier reading of the monotone allocation counter)
		u.assume(app("<=", u.heapCur(e.cur, g), u.heapCur(e.cur, "$alloc")))
		return Val{T: app(">", t, u.heapCur(e.cur, g)), S: "Bool", Ty: types.Typ[types.Bool]}
	case "alloc":
		return Val{T: u.heapCur(e.cur, "$alloc"), S: "Int", Ty: intT}
	case "clock":
		return Val{T: u.heapCur(e.cur, "$clock"), S: "Int", Ty: intT}
	case "fresh":
		a := e.tr(n.Args[0])
		if e.old == nil {
			e.fail("fresh() needs an old state")
		}
		t := a.T
		if a.S == "Slice" {
			t = app("sl_base", a.T)
		}
		return Val{T: app(">", t, u.heapCur(e.old, "$alloc")), S: "Bool", Ty: boolT}
	case "allocated":
		a := e.tr(n.Args[0])
		t := a.T
		if a.S == "Slice" {
			t = app("sl_base", a.T)
		}
		return Val{T: and(app("<=", "0", t), app("<=", t, u.heapCur(e.cur, "$alloc"))), S: "Bool", Ty: boolT}
	case "tsT": // instant of a *timestamppb.Timestamp
		a := e.tr(n.Args[0])
		return Val{T: u.tsInstant(e.cur, a.T), S: "Int", Ty: u.cx.lookupType("time", "Time")}
	case "typeis": // typeis(x, T): dynamic type of interface value
		a := e.tr(n.Args[0])
		tn := n.Args[1].String()
		t := e.resolveType(tn)
		if t == nil {
			e.fail("typeis: unknown type %s", tn)
		}
		return Val{T: and(not(eq(a.T, "0")), eq(app("typeof", a.T), u.enc.typeTag(t))), S: "Bool", Ty: boolT}
	case "unbox": // unbox(x, T)
		a := e.tr(n.Args[0])
		tn := n.Args[1].String()
		t := e.resolveType(tn)
		if t == nil {
			e.fail("unbox: unknown type %s", tn)
		}
		s := u.enc.sortOf(t)
		g := u.enc.declFun("unbox$"+s, []string{"Int"}, s)
		return Val{T: app(g, a.T), S: s, Ty: t}
	case "slice": // slice(s, lo, hi) spec-level reslice
		as := args()
		s := as[0]
		return Val{T: app("mk_slice", app("sl_base", s.T), app("+", app("sl_off", s.T), as[1].T), app("-", as[2].T, as[1].T), app("-", app("sl_cap", s.T), as[1].T)), S: "Slice", Ty: s.Ty}
	case "min", "max":
		as := args()
		op := "<="
		if n.Fn == "max" {
			op = ">="
		}
		return Val{T: ite(app(op, as[0].T, as[1].T), as[0].T, as[1].T), S: as[0].S, Ty: as[0].Ty}
	}
	if sf, ok := u.cx.cs.Specs[n.Fn]; ok {
		if len(sf.Params) != len(n.Args) {
			e.fail("spec %s expects %d args", n.Fn, len(sf.Params))
		}
		if e.specDepth > 12 {
			e.fail("spec expansion too deep at %s (recursive spec functions must be declared with uf + axiom)", n.Fn)
		}
		sub := &Env{u: u, vars: map[string]Val{}, cur: e.cur, old: e.old, pkg: u.cx.typesPkg(sf.PkgPath), specDepth: e.specDepth + 1, qbind: e.qbind, fr: nil}
		sub.tpFrame = e.fr
		if e.tpFrame != nil {
			sub.tpFrame = e.tpFrame
		}
		sub.loopPre = e.loopPre
		for i, p := range sf.Params {
			a := e.tr(n.Args[i])
			srt, ty := sub.specSort(p.Type)
			if srt != "_" && a.S != srt {
				e.fail("spec %s: argument %d has sort %s, want %s", n.Fn, i, a.S, srt)
			}
			if ty != nil {
				a.Ty = ty
			}
			sub.vars[p.Name] = a
		}
		v := sub.tr(sf.Body)
		if sf.Ret != "" {
			srt, ty := sub.specSort(sf.Ret)
			if srt != v.S {
				e.fail("spec %s: body has sort %s, declared %s", n.Fn, v.S, srt)
			}
			v.Ty = ty
		}
		return v
	}
	if uf, ok := u.cx.cs.UFs[n.Fn]; ok {
		penv := &Env{u: u, pkg: u.cx.typesPkg(uf.PkgPath)}
		var ss []string
		for _, p := range uf.Params {
			s, _ := penv.specSort(p)
			ss = append(ss, s)
		}
		rs, rt := penv.specSort(uf.Ret)
		f := u.enc.declFun("uf$"+uf.Name, ss, rs)
		as := args()
		if len(as) != len(ss) {
			e.fail("uf %s expects %d args", n.Fn, len(ss))
		}
		var ts []string
		for i, a := range as {
			if a.S != ss[i] {
				e.fail("uf %s: argument %d has sort %s, want %s", n.Fn, i, a.S, ss[i])
			}
			ts = append(ts, a.T)
		}
		t := f
		if len(ts) > 0 {
			t = app(f, ts...)
		}
		return Val{T: t, S: rs, Ty: rt}
	}
	// pure Go function with a contract: pure$name
	if e.pkg != nil {
		if fc, ok := u.cx.cs.Funcs[fkey(e.pkg.Path(), n.Fn)]; ok && fc.Pure {
			fn := u.cx.lookupFn(e.pkg.Path(), n.Fn)
			if fn != nil {
				return e.pureApp(fn.String(), fn.Signature, args())
			}
		}
	}
	// ... or a pure function of another package (unambiguous unqualified name)
	{
		var hit *FuncContract
		n2 := 0
		for _, fc := range u.cx.cs.Funcs {
			if fc.Pure && fc.Name == n.Fn {
				hit = fc
				n2++
			}
		}
		if n2 == 1 {
			if fn := u.cx.lookupFn(hit.PkgPath, hit.Name); fn != nil {
				return e.pureApp(fn.String(), fn.Signature, args())
			}
		}
	}
	e.fail("unknown function %s", n.Fn)
	return Val{}
}

func (e *Env) pureApp(name string, sig *types.Signature, as []Val) Val {
	u := e.u
	var ts, ss []string
	for _, a := range as {
		ts = append(ts, a.T)
		ss = append(ss, a.S)
	}
	rt := sig.Results().At(0).Type()
	f := u.enc.declFun("pure$"+name, ss, u.enc.sortOf(rt))
	t := f
	if len(ts) > 0 {
		t = app(f, ts...)
	}
	return Val{T: t, S: u.enc.sortOf(rt), Ty: rt}
}

const unixEpochNs = "62135596800000000000" // seconds from year 1 to 1970, in ns

func (u *Unit) tsInstant(st *State, p string) string {
	// timestamppb.Timestamp{Seconds, Nanos}
	tsT := u.cx.lookupType("google.golang.org/protobuf/types/known/timestamppb", "Timestamp")
	if tsT == nil {
		u.unsup("timestamppb not loaded")
	}
	s := tsT.Underlying().(*types.Struct)
	var sec, nan string
	for i := 0; i < s.NumFields(); i++ {
		switch s.Field(i).Name() {
		case "Seconds":
			h, _ := u.fieldHeap(tsT, i)
			sec = sel(u.heapCur(st, h), p)
		case "Nanos":
			h, _ := u.fieldHeap(tsT, i)
			nan = sel(u.heapCur(st, h), p)
		}
	}
	return ite(eq(p, "0"), unixEpochNs, fmt.Sprintf("(+ (* %s 1000000000) %s %s)", sec, nan, unixEpochNs))
}

func (cx *Ctx) lookupType(pkg, name string) types.Type {
	p, ok := cx.pkgs[pkg]
	if !ok || p.Types == nil {
		return nil
	}
	o := p.Types.Scope().Lookup(name)
	if o == nil {
		return nil
	}
	return o.Type()
}

func (e *Env) trMethod(n *EMethod) Val {
	u := e.u
	boolT := types.Typ[types.Bool]
	x := e.tr(n.X)
	var as []Val
	for _, a := range n.Args {
		as = append(as, e.tr(a))
	}
	if x.Ty != nil && isTime(x.Ty) {
		switch n.Name {
		case "Before":
			return Val{T: app("<", x.T, as[0].T), S: "Bool", Ty: boolT}
		case "After":
			return Val{T: app(">", x.T, as[0].T), S: "Bool", Ty: boolT}
		case "Equal":
			return Val{T: eq(x.T, as[0].T), S: "Bool", Ty: boolT}
		case "IsZero":
			return Val{T: eq(x.T, "0"), S: "Bool", Ty: boolT}
		case "Add":
			return Val{T: app("+", x.T, as[0].T), S: "Int", Ty: x.Ty, Zone: x.Zone}
		case "Sub":
			return Val{T: app("-", x.T, as[0].T), S: "Int", Ty: as[0].Ty}
		case "UTC":
			return zoned(x, u.zoneConst("zone_utc"))
		case "Local":
			return zoned(x, u.zoneConst("zone_local"))
		case "Unix":
			return Val{T: "(div (- " + x.T + " " + unixEpochNs + ") 1000000000)", S: "Int", Ty: types.Typ[types.Int64]}
		case "Hour", "Minute", "Second", "Day", "Month", "Weekday", "Year":
			// the same uninterpreted calendar functions the trusted table uses for package time
			name := map[string]string{"Hour": "cal_hour", "Minute": "cal_minute", "Second": "cal_second", "Day": "cal_day", "Month": "cal_month", "Weekday": "cal_weekday", "Year": "cal_year"}[n.Name]
			if x.Zone == "" {
				e.fail("%s() on a time value whose location is not known here: write at(t, zone).%s()", n.Name, n.Name)
			}
			return Val{T: app(u.calFn(name), x.T, x.Zone), S: "Int", Ty: types.Typ[types.Int]}
		case "In":
			return zoned(x, as[0].T)
		}
	}
	if x.Ty != nil && isNamedPtr(x.Ty, "google.golang.org/protobuf/types/known/timestamppb", "Timestamp") && n.Name == "AsTime" {
		tt := u.cx.lookupType("time", "Time")
		return Val{T: u.tsInstant(e.cur, x.T), S: "Int", Ty: tt}
	}
	// pure Go method / interface method under contract
	if x.Ty != nil {
		t := types.Unalias(x.Ty)
		var named *types.Named
		isPtr := false
		if p, ok := t.(*types.Pointer); ok {
			isPtr = true
			named, _ = types.Unalias(p.Elem()).(*types.Named)
		} else {
			named, _ = t.(*types.Named)
		}
		if named != nil && named.Obj().Pkg() != nil {
			pkg := named.Obj().Pkg().Path()
			names := []string{"(" + named.Obj().Name() + ")." + n.Name}
			if isPtr {
				names = append([]string{"(*" + named.Obj().Name() + ")." + n.Name}, names...)
			}
			for _, nm := range names {
				if fc, ok := u.cx.cs.Funcs[fkey(pkg, nm)]; ok && fc.Pure {
					// find signature
					obj, _, _ := types.LookupFieldOrMethod(x.Ty, true, named.Obj().Pkg(), n.Name)
					if f, ok := obj.(*types.Func); ok {
						full := nm
						if _, isIface := named.Underlying().(*types.Interface); isIface {
							full = ifaceMethodName(named, n.Name)
						} else if fn := u.cx.lookupFn(pkg, nm); fn != nil {
							full = fn.String()
						}
						return e.pureApp(full, f.Type().(*types.Signature), append([]Val{x}, as...))
					}
				}
			}
		}
	}
	e.fail("unknown method %s on %v", n.Name, x.Ty)
	return Val{}
}

func isNamedPtr(t types.Type, pkg, name string) bool {
	p, ok := types.Unalias(t).Underlying().(*types.Pointer)
	return ok && isNamed(p.Elem(), pkg, name)
}

// ---------------------------------------------------------------------------
// environments for function contracts

func (fr *Frame) specEnv(cur, old *State) *Env {
	u := fr.u
	env := &Env{u: u, vars: map[string]Val{}, cur: cur, old: old, fr: fr}
	env.pkg = u.cx.typesPkg(fnPkgPath(fr.fn))
	for _, p := range fr.fn.Params {
		if v, ok := fr.vals[p]; ok {
			v.Ty = p.Type()
			env.vars[p.Name()] = v
		}
	}
	for _, p := range fr.fn.FreeVars {
		if v, ok := fr.vals[p]; ok {
			v.Ty = p.Type()
			env.vars[p.Name()] = v
		}
	}
	return env
}

// trInvariantTol: like trInvariant, but a clause that names a variable the function no longer has (a renamed or
// removed local) does not abort the whole function: where the clause is an obligation it counts as failed (dflt
// "false"), where it would be assumed it is dropped (dflt "true"), and the remaining obligations are still generated.
func (fr *Frame) trInvariantTol(c *Clause, st *State, h *ssa.BasicBlock, dflt string) (t string) {
	defer func() {
		if r := recover(); r != nil {
			if us, ok := r.(unsupported); ok && clauseStale(us.msg) {
				fr.u.note("clause of %s cannot be evaluated on this code (%s): %s", fr.fn, us.msg, c.Src)
				t = dflt
				return
			}
			panic(r)
		}
	}()
	return fr.trInvariant(c, st, h)
}

func (fr *Frame) trInvariant(c *Clause, st *State, h *ssa.BasicBlock) string {
	env := fr.specEnv(st, fr.entry)
	env.header = h
	env.loopPre = fr.loopPre[h]
	// ghost visited set: "visited" is the set of the map range whose Next sits in this loop header;
	// visited_<name> addresses any other by the SSA name of its range instruction.
	for name := range fr.u.heapSort {
		if strings.HasPrefix(name, "$visited:"+fr.prefix) {
			srt := fr.u.heapSort[name]
			env.vars["visited_"+strings.TrimPrefix(name, "$visited:"+fr.prefix)] = Val{T: fr.u.heapCur(st, name), S: srt}
		}
	}
	if h != nil {
		for _, in := range h.Instrs {
			if nx, ok := in.(*ssa.Next); ok {
				if rg, ok := nx.Iter.(*ssa.Range); ok {
					g := "$visited:" + fr.name(rg)
					if srt, ok := fr.u.heapSort[g]; ok {
						env.vars["visited"] = Val{T: fr.u.heapCur(st, g), S: srt}
						// rangedom: the key set the ranged-over map had when the range started
						if v, ok := fr.vals[rg]; ok && v.Iter != nil && v.Iter.Dom0 != "" {
							env.vars["rangedom"] = Val{T: v.Iter.Dom0, S: srt}
						}
					}
				}
			}
		}
	}
	return env.trBool(c.E)
}

// zoneTy: *time.Location
func (u *Unit) zoneTy() types.Type {
	if t := u.cx.lookupType("time", "Location"); t != nil {
		return types.NewPointer(t)
	}
	return types.Typ[types.Int]
}
