package main

// Contract files: comment-only Go files (build tag verif) holding //@ lines.

import (
	"bufio"
	"fmt"
	"os"
	"path/filepath"
	"regexp"
	"strconv"
	"strings"
)

type Clause struct {
	Kind  string // requires ensures invariant at lemma axiom
	Label string
	Src   string
	E     Expr
	Loop  int
	File  string
	Line  int
	// at-call clauses
	Callee string
	// finding region (optional): clause is expected to fail inside region
	Region    Expr
	RegionSrc string
	FindingID string
}

type FuncContract struct {
	PkgPath    string
	Name       string // RelString within package, or full String() for foreign functions
	Requires   []*Clause
	Assumes    []*Clause // type-level facts about inputs that callers are not asked to establish (listed as assumptions)
	Ensures    []*Clause
	Invariants map[int][]*Clause
	EarlyExits map[int][]*Clause // loop N earlyexit expr: expr holds whenever loop N is left other than through its header (break, return, goto)
	AtCalls    []*Clause
	AfterCalls []*Clause // assumptions about results of matching (external) calls: after call <pat> assume <expr>
	Assigns    []string
	HasAssigns bool
	Pure       bool
	Inline     bool
	Trusted    bool
	MayPanic   bool
	NoSafe     bool
	Abstract   bool
	Fresh      bool // result is freshly allocated
	NoEffect   []string // callee-name patterns assumed to have no effect on the modelled heap
	Opaque     []string // callee-name patterns never inlined: treated as unknown code (havoc of the modelled heap, results unconstrained)
	FreshOnly  []string // callee-name patterns assumed to modify only objects allocated since this function was entered
	File       string
	Line       int
	Props      []string
}

type SpecFunc struct {
	PkgPath string
	Name    string
	Params  []QVar
	Ret     string
	Body    Expr
	Src     string
	File    string
	Line    int
}

type UFDecl struct {
	PkgPath string
	Name    string
	Params  []string
	Ret     string
}

type Lemma struct {
	PkgPath string
	Name    string
	C       *Clause
	Axiom   bool
	Props   []string
}

// Structural: a type-level obligation discharged by go/types instead of a solver: every struct field in the named
// packages whose yaml name matches Fields (and not Except) must have one of the named types (after dereferencing).
type Structural struct {
	Name   string
	Props  []string
	In     []string // package path prefixes
	Fields string
	Except string
	Types  []string // type names (unqualified)
	NoMethods []string // second form: the named types (Types) must not have any of these methods (value or pointer receiver)
	File   string
	Line   int
}

// TypeInv: an assumed invariant of the values of one named type (`//@ typeinv T :: expr over self`): assumed of every
// non-nil *T loaded from the heap (the "is_valid()" of inputs); listed as an assumption in the evidence.
type TypeInv struct {
	PkgPath, Name string
	E             Expr
	Src           string
}

type Contracts struct {
	TypeInvs    map[string]*TypeInv // key: pkgpath + "." + type name
	Structurals []*Structural
	Funcs  map[string]*FuncContract // key: pkgpath + "::" + name
	Specs  map[string]*SpecFunc     // key: name (global namespace, must be unique)
	UFs    map[string]*UFDecl
	Lemmas []*Lemma
	Files  []string
	Source map[string]string // pkg -> file used
}

func fkey(pkg, name string) string { return pkg + "::" + name }

var kwRe = regexp.MustCompile(`^(func|spec|lemma|axiom|uf|typeinv|structural|in|fields|except|types|nomethods|requires|ensures|invariant|loop|assigns|pure|inline|trusted|maypanic|nosafe|abstract|fresh|at|props|finding|noeffect|freshonly|opaque|assumes|after)\b`)

// loadContractFile parses one file. pkgPath is the import path of the package it annotates.
func (cs *Contracts) loadContractFile(path, pkgPath string) error {
	f, err := os.Open(path)
	if err != nil {
		return err
	}
	defer f.Close()
	type rawClause struct {
		text string
		line int
	}
	var raws []rawClause
	sc := bufio.NewScanner(f)
	sc.Buffer(make([]byte, 1<<20), 1<<20)
	ln := 0
	for sc.Scan() {
		ln++
		line := strings.TrimSpace(sc.Text())
		if !strings.HasPrefix(line, "//@") {
			continue
		}
		body := strings.TrimSpace(strings.TrimPrefix(line, "//@"))
		if i := strings.Index(body, " //"); i >= 0 { // trailing comment
			body = strings.TrimSpace(body[:i])
		}
		if strings.HasPrefix(body, "//") {
			continue
		}
		if body == "" {
			continue
		}
		if kwRe.MatchString(body) || len(raws) == 0 {
			raws = append(raws, rawClause{body, ln})
		} else {
			raws[len(raws)-1].text += " " + body
		}
	}
	var cur *FuncContract
	var curLemma *Lemma
	var curStruct *Structural
	for _, rc := range raws {
		kw := kwRe.FindString(rc.text)
		rest := strings.TrimSpace(rc.text[len(kw):])
		mk := func(kind, src string) (*Clause, error) {
			c := &Clause{Kind: kind, File: path, Line: rc.line}
			src = strings.TrimSpace(src)
			if strings.HasPrefix(src, "[") {
				if i := strings.Index(src, "]"); i > 0 {
					c.Label = strings.TrimSpace(src[1:i])
					src = strings.TrimSpace(src[i+1:])
				}
			}
			c.Src = src
			e, err := ParseExpr(src)
			if err != nil {
				return nil, fmt.Errorf("%s:%d: %v", path, rc.line, err)
			}
			c.E = e
			return c, nil
		}
		if curStruct != nil {
			handled := true
			switch kw {
			case "props":
				curStruct.Props = append(curStruct.Props, strings.Fields(strings.ReplaceAll(rest, ",", " "))...)
			case "in":
				curStruct.In = append(curStruct.In, strings.Fields(rest)...)
			case "fields":
				curStruct.Fields = rest
			case "except":
				curStruct.Except = rest
			case "types":
				curStruct.Types = append(curStruct.Types, strings.Fields(rest)...)
			case "nomethods":
				curStruct.NoMethods = append(curStruct.NoMethods, strings.Fields(rest)...)
			default:
				handled = false
				curStruct = nil
			}
			if handled {
				continue
			}
		}
		switch kw {
		case "structural":
			curStruct = &Structural{Name: rest, File: path, Line: rc.line}
			cs.Structurals = append(cs.Structurals, curStruct)
			cur, curLemma = nil, nil
		case "func":
			name := rest
			pkg := pkgPath
			if strings.HasPrefix(name, "@") { // foreign function: @full/pkg/path name
				parts := strings.SplitN(name[1:], " ", 2)
				if len(parts) != 2 {
					return fmt.Errorf("%s:%d: bad foreign func", path, rc.line)
				}
				pkg, name = parts[0], strings.TrimSpace(parts[1])
			}
			cur = &FuncContract{PkgPath: pkg, Name: name, Invariants: map[int][]*Clause{}, EarlyExits: map[int][]*Clause{}, File: path, Line: rc.line}
			if _, dup := cs.Funcs[fkey(pkg, name)]; dup {
				return fmt.Errorf("%s:%d: duplicate contract for %s", path, rc.line, name)
			}
			cs.Funcs[fkey(pkg, name)] = cur
			curLemma = nil
		case "requires", "ensures", "assumes":
			if cur == nil {
				return fmt.Errorf("%s:%d: %s outside func", path, rc.line, kw)
			}
			c, err := mk(kw, rest)
			if err != nil {
				return err
			}
			if kw == "requires" {
				cur.Requires = append(cur.Requires, c)
			} else if kw == "assumes" {
				cur.Assumes = append(cur.Assumes, c)
			} else {
				cur.Ensures = append(cur.Ensures, c)
			}
		case "loop":
			// loop N invariant expr
			if cur == nil {
				return fmt.Errorf("%s:%d: loop outside func", path, rc.line)
			}
			parts := strings.SplitN(rest, " ", 3)
			if len(parts) < 3 || (parts[1] != "invariant" && parts[1] != "earlyexit") {
				return fmt.Errorf("%s:%d: expected 'loop N invariant expr' or 'loop N earlyexit expr'", path, rc.line)
			}
			n, err := strconv.Atoi(parts[0])
			if err != nil {
				return fmt.Errorf("%s:%d: bad loop ordinal", path, rc.line)
			}
			if parts[1] == "earlyexit" {
				c, err := mk("earlyexit", parts[2])
				if err != nil {
					return err
				}
				c.Loop = n
				cur.EarlyExits[n] = append(cur.EarlyExits[n], c)
				break
			}
			c, err := mk("invariant", parts[2])
			if err != nil {
				return err
			}
			c.Loop = n
			cur.Invariants[n] = append(cur.Invariants[n], c)
		case "at":
			// at call <callee-substring> assert expr
			if cur == nil {
				return fmt.Errorf("%s:%d: at outside func", path, rc.line)
			}
			parts := strings.SplitN(rest, " ", 4)
			if len(parts) < 4 || parts[0] != "call" || parts[2] != "assert" {
				return fmt.Errorf("%s:%d: expected 'at call <callee> assert expr'", path, rc.line)
			}
			c, err := mk("at", parts[3])
			if err != nil {
				return err
			}
			c.Callee = parts[1]
			cur.AtCalls = append(cur.AtCalls, c)
		case "after":
			// after call <callee-substring> assume expr
			if cur == nil {
				return fmt.Errorf("%s:%d: after outside func", path, rc.line)
			}
			parts := strings.SplitN(rest, " ", 4)
			if len(parts) < 4 || parts[0] != "call" || parts[2] != "assume" {
				return fmt.Errorf("%s:%d: expected 'after call <callee> assume expr'", path, rc.line)
			}
			c, err := mk("after", parts[3])
			if err != nil {
				return err
			}
			c.Callee = parts[1]
			cur.AfterCalls = append(cur.AfterCalls, c)
		case "finding":
			// finding <id> <clause-label> region <expr> : attaches to a previously declared clause
			parts := strings.SplitN(rest, " ", 4)
			if cur == nil && curLemma == nil || len(parts) < 4 || parts[2] != "region" {
				return fmt.Errorf("%s:%d: expected 'finding <id> <label> region <expr>'", path, rc.line)
			}
			e, err := ParseExpr(parts[3])
			if err != nil {
				return fmt.Errorf("%s:%d: %v", path, rc.line, err)
			}
			var all []*Clause
			if cur != nil {
				all = append(all, cur.Requires...)
				all = append(all, cur.Ensures...)
				all = append(all, cur.AtCalls...)
				for _, v := range cur.Invariants {
					all = append(all, v...)
				}
				for _, v := range cur.EarlyExits {
					all = append(all, v...)
				}
			}
			found := false
			for _, c := range all {
				if c.Label == parts[1] {
					c.Region, c.RegionSrc, c.FindingID = e, parts[3], parts[0]
					found = true
				}
			}
			if !found {
				return fmt.Errorf("%s:%d: finding refers to unknown label %q", path, rc.line, parts[1])
			}
		case "assigns":
			if cur == nil {
				return fmt.Errorf("%s:%d: assigns outside func", path, rc.line)
			}
			cur.HasAssigns = true
			for _, a := range strings.Split(rest, ",") {
				a = strings.TrimSpace(a)
				if a != "" && a != "nothing" {
					cur.Assigns = append(cur.Assigns, a)
				}
			}
		case "pure":
			cur.Pure = true
			cur.HasAssigns = true
		case "inline":
			cur.Inline = true
		case "trusted":
			cur.Trusted = true
		case "maypanic":
			cur.MayPanic = true
		case "nosafe":
			cur.NoSafe = true
		case "abstract":
			cur.Abstract = true
		case "fresh":
			cur.Fresh = true
		case "noeffect":
			cur.NoEffect = append(cur.NoEffect, strings.Fields(strings.ReplaceAll(rest, ",", " "))...)
		case "opaque":
			cur.Opaque = append(cur.Opaque, strings.Fields(strings.ReplaceAll(rest, ",", " "))...)
		case "freshonly":
			cur.FreshOnly = append(cur.FreshOnly, strings.Fields(strings.ReplaceAll(rest, ",", " "))...)
		case "props":
			ps := strings.Fields(strings.ReplaceAll(rest, ",", " "))
			if cur != nil {
				cur.Props = append(cur.Props, ps...)
			} else if curLemma != nil {
				curLemma.Props = append(curLemma.Props, ps...)
			}
		case "spec":
			// spec name(a T, b U) R = expr
			i := strings.Index(rest, "(")
			if i < 0 {
				return fmt.Errorf("%s:%d: bad spec", path, rc.line)
			}
			name := strings.TrimSpace(rest[:i])
			depth := 0
			j := i
			for ; j < len(rest); j++ {
				if rest[j] == '(' {
					depth++
				}
				if rest[j] == ')' {
					depth--
					if depth == 0 {
						break
					}
				}
			}
			params, err := parseParams(rest[i+1 : j])
			if err != nil {
				return fmt.Errorf("%s:%d: %v", path, rc.line, err)
			}
			after := rest[j+1:]
			k := strings.Index(after, "=")
			if k < 0 {
				return fmt.Errorf("%s:%d: spec needs '='", path, rc.line)
			}
			// careful: '=' must not be part of '==' in the return type (types have no '=')
			ret := strings.TrimSpace(after[:k])
			body := strings.TrimSpace(after[k+1:])
			e, err := ParseExpr(body)
			if err != nil {
				return fmt.Errorf("%s:%d: %v", path, rc.line, err)
			}
			if _, dup := cs.Specs[name]; dup {
				return fmt.Errorf("%s:%d: duplicate spec %s", path, rc.line, name)
			}
			cs.Specs[name] = &SpecFunc{PkgPath: pkgPath, Name: name, Params: params, Ret: ret, Body: e, Src: body, File: path, Line: rc.line}
			cur = nil
		case "uf":
			// uf name(T, U) R
			i := strings.Index(rest, "(")
			j := strings.LastIndex(rest, ")")
			if i < 0 || j < i {
				return fmt.Errorf("%s:%d: bad uf", path, rc.line)
			}
			name := strings.TrimSpace(rest[:i])
			var ps []string
			for _, p := range splitTop(rest[i+1 : j]) {
				p = strings.TrimSpace(p)
				if p != "" {
					ps = append(ps, p)
				}
			}
			cs.UFs[name] = &UFDecl{PkgPath: pkgPath, Name: name, Params: ps, Ret: strings.TrimSpace(rest[j+1:])}
			cur = nil
		case "typeinv":
			// typeinv T :: expr
			i := strings.Index(rest, "::")
			if i < 0 {
				return fmt.Errorf("%s:%d: typeinv needs 'T :: expr'", path, rc.line)
			}
			name := strings.TrimSpace(rest[:i])
			body := strings.TrimSpace(rest[i+2:])
			e, err := ParseExpr(body)
			if err != nil {
				return fmt.Errorf("%s:%d: %v", path, rc.line, err)
			}
			if cs.TypeInvs == nil {
				cs.TypeInvs = map[string]*TypeInv{}
			}
			cs.TypeInvs[pkgPath+"."+name] = &TypeInv{PkgPath: pkgPath, Name: name, E: e, Src: body}
			cur = nil
		case "lemma", "axiom":
			i := strings.Index(rest, ":")
			if i < 0 {
				return fmt.Errorf("%s:%d: lemma needs 'name: expr'", path, rc.line)
			}
			name := strings.TrimSpace(rest[:i])
			c, err := mk(kw, rest[i+1:])
			if err != nil {
				return err
			}
			c.Label = name
			curLemma = &Lemma{PkgPath: pkgPath, Name: name, C: c, Axiom: kw == "axiom"}
			cs.Lemmas = append(cs.Lemmas, curLemma)
			cur = nil
		default:
			return fmt.Errorf("%s:%d: cannot parse %q", path, rc.line, rc.text)
		}
	}
	cs.Files = append(cs.Files, path)
	return nil
}

func splitTop(s string) []string {
	var out []string
	depth := 0
	last := 0
	for i, c := range s {
		switch c {
		case '(', '[', '{':
			depth++
		case ')', ']', '}':
			depth--
		case ',':
			if depth == 0 {
				out = append(out, s[last:i])
				last = i + 1
			}
		}
	}
	out = append(out, s[last:])
	return out
}

func parseParams(s string) ([]QVar, error) {
	var out []QVar
	for _, p := range splitTop(s) {
		p = strings.TrimSpace(p)
		if p == "" {
			continue
		}
		i := strings.IndexAny(p, " \t")
		if i < 0 {
			return nil, fmt.Errorf("param %q needs a type", p)
		}
		out = append(out, QVar{p[:i], strings.TrimSpace(p[i:])})
	}
	return out, nil
}

// LoadContracts finds verif_contracts.go files under repo; falls back to the mirror.
func LoadContracts(repo, mirror, modPath string) (*Contracts, error) {
	cs := &Contracts{Funcs: map[string]*FuncContract{}, Specs: map[string]*SpecFunc{}, UFs: map[string]*UFDecl{}, Source: map[string]string{}}
	seen := map[string]bool{}
	load := func(root string, isMirror bool) error {
		return filepath.Walk(root, func(p string, info os.FileInfo, err error) error {
			if err != nil {
				return nil
			}
			if info.IsDir() {
				n := info.Name()
				if n == ".git" || n == "node_modules" || n == "ui" {
					return filepath.SkipDir
				}
				return nil
			}
			if info.Name() != "verif_contracts.go" {
				return nil
			}
			rel, _ := filepath.Rel(root, filepath.Dir(p))
			pkg := modPath
			if rel != "." {
				pkg = modPath + "/" + filepath.ToSlash(rel)
			}
			if seen[pkg] {
				return nil
			}
			seen[pkg] = true
			cs.Source[pkg] = p
			return cs.loadContractFile(p, pkg)
		})
	}
	if err := load(repo, false); err != nil {
		return nil, err
	}
	if mirror != "" {
		if _, err := os.Stat(mirror); err == nil {
			if err := load(mirror, true); err != nil {
				return nil, err
			}
		}
	}
	return cs, nil
}
