package main

// SMT layer: sorts derived from Go types, declarations, small term helpers.

import (
	"fmt"
	"go/types"
	"sort"
	"strings"
)

// Enc collects declarations shared by all queries of one verification unit.
type Enc struct {
	decls    []string          // ordered declarations (sorts, funs, consts)
	declared map[string]bool   // by symbol
	sorts    map[string]string // type key -> sort
	dtDone   map[string]bool
	strLits  map[string]string // literal -> const name
	strOrder []string
	typeTags map[string]int
	tagOrder []string
	axioms   []string // global axioms (always assumed)
	fresh    int
	typeNames map[string]types.Type
}

func NewEnc() *Enc {
	e := &Enc{declared: map[string]bool{}, sorts: map[string]string{}, dtDone: map[string]bool{},
		strLits: map[string]string{}, typeTags: map[string]int{}, typeNames: map[string]types.Type{}}
	e.raw("Str", "(declare-sort Str 0)")
	e.raw("Slice", "(declare-datatypes ((Slice 0)) (((mk_slice (sl_base Int) (sl_off Int) (sl_len Int) (sl_cap Int)))))")
	e.raw("str_len", "(declare-fun str_len (Str) Int)")
	e.raw("str_concat", "(declare-fun str_concat (Str Str) Str)")
	e.raw("typeof", "(declare-fun typeof (Int) Int)")
	e.strLit("")
	// abstract finite sequences of references (Go slices viewed as mathematical lists): no SMT sequence theory
	e.raw("RSeq", "(declare-sort RSeq 0)")
	e.raw("seq_nil", "(declare-fun seq_nil () RSeq)")
	e.raw("seq_single", "(declare-fun seq_single (Int) RSeq)")
	e.raw("seq_concat", "(declare-fun seq_concat (RSeq RSeq) RSeq)")
	e.raw("slice_seq", "(declare-fun slice_seq ((Array Int Int) Int Int) RSeq)")
	e.axioms = append(e.axioms,
		"(forall ((x RSeq)) (! (= (seq_concat seq_nil x) x) :pattern ((seq_concat seq_nil x))))",
		"(forall ((x RSeq)) (! (= (seq_concat x seq_nil) x) :pattern ((seq_concat x seq_nil))))",
		"(forall ((x RSeq) (y RSeq)) (! (= (= (seq_concat x y) seq_nil) (and (= x seq_nil) (= y seq_nil))) :pattern ((seq_concat x y))))",
		"(forall ((v Int)) (! (not (= (seq_single v) seq_nil)) :pattern ((seq_single v))))",
		"(forall ((x RSeq) (y RSeq) (z RSeq)) (! (= (seq_concat (seq_concat x y) z) (seq_concat x (seq_concat y z))) :pattern ((seq_concat (seq_concat x y) z))))",
		"(forall ((r (Array Int Int)) (o Int) (n Int)) (! (= (= (slice_seq r o n) seq_nil) (<= n 0)) :pattern ((slice_seq r o n))))",
		"(forall ((r (Array Int Int)) (o Int)) (! (= (slice_seq r o 1) (seq_single (select r (ix o 0)))) :pattern ((slice_seq r o 1))))",
	)
	// ix(off, i) = off + i: element addresses keep this syntactic shape so that quantifier patterns match them
	e.raw("ix", "(declare-fun ix (Int Int) Int)")
	e.axioms = append(e.axioms, "(forall ((o!x Int) (i!x Int)) (! (= (ix o!x i!x) (+ o!x i!x)) :pattern ((ix o!x i!x))))")
	e.axioms = append(e.axioms,
		"(forall ((s Str)) (! (>= (str_len s) 0) :pattern ((str_len s))))",
		"(forall ((s Str)) (! (= (= (str_len s) 0) (= s "+e.strLit("")+")) :pattern ((str_len s))))",
		"(forall ((a Str) (b Str)) (! (= (str_len (str_concat a b)) (+ (str_len a) (str_len b))) :pattern ((str_concat a b))))",
	)
	e.raw("str_nrunes", "(declare-fun str_nrunes (Str) Int)")
	e.axioms = append(e.axioms,
		"(forall ((a Str) (b Str)) (! (= (str_nrunes (str_concat a b)) (+ (str_nrunes a) (str_nrunes b))) :pattern ((str_concat a b))))",
		"(forall ((a Str)) (! (and (<= 0 (str_nrunes a)) (<= (str_nrunes a) (str_len a))) :pattern ((str_nrunes a))))",
	)
	return e
}

func (e *Enc) raw(sym, decl string) {
	if e.declared[sym] {
		return
	}
	e.declared[sym] = true
	e.decls = append(e.decls, decl)
}

func q(s string) string {
	// quote a symbol for SMT-LIB
	ok := true
	for _, c := range s {
		if !(c >= 'a' && c <= 'z' || c >= 'A' && c <= 'Z' || c >= '0' && c <= '9' || c == '_' || c == '.' || c == '$' || c == '@' || c == '!') {
			ok = false
			break
		}
	}
	if ok && len(s) > 0 && !(s[0] >= '0' && s[0] <= '9') {
		return s
	}
	s = strings.ReplaceAll(s, "|", "!")
	s = strings.ReplaceAll(s, "\\", "!")
	return "|" + s + "|"
}

var smtReserved = map[string]bool{"store": true, "select": true, "and": true, "or": true, "not": true, "ite": true, "let": true, "forall": true, "exists": true,
	"true": true, "false": true, "distinct": true, "div": true, "mod": true, "abs": true, "assert": true, "as": true, "par": true, "Int": true, "Bool": true, "Real": true,
	"Array": true, "xor": true, "to_real": true, "to_int": true, "is_int": true, "match": true, "push": true, "pop": true, "exit": true, "Str": true, "Slice": true, "typeof": true,
	"str_len": true, "str_concat": true, "ix": true, "RSeq": true, "seq_nil": true, "seq_single": true, "seq_concat": true, "slice_seq": true, "mk_slice": true, "sl_base": true, "sl_off": true, "sl_len": true, "sl_cap": true, "const": true, "lambda": true, "set": true, "map": true, "seq": true, "re": true, "bag": true, "tuple": true, "table": true, "member": true, "subset": true, "union": true, "inter": true, "insert": true, "singleton": true, "complement": true, "card": true, "choose": true, "filter": true, "fold": true, "iand": true, "int2bv": true, "bv2nat": true, "pow2": true, "exp": true, "sin": true, "cos": true, "tan": true, "pi": true, "sqrt": true, "divisible": true, "eqrange": true, "is": true, "update": true, "witness": true, "Float16": true, "Float32": true, "Float64": true, "RoundingMode": true, "String": true, "RegLan": true, "fp": true, "rel": true, "join": true, "product": true, "transpose": true, "tclosure": true, "iden": true}

func (e *Enc) declConst(name, sort string) string {
	if smtReserved[name] {
		name = name + "!p"
	}
	n := q(name)
	e.raw(n, fmt.Sprintf("(declare-fun %s () %s)", n, sort))
	return n
}

func (e *Enc) declFun(name string, args []string, res string) string {
	n := q(name)
	e.raw(n, fmt.Sprintf("(declare-fun %s (%s) %s)", n, strings.Join(args, " "), res))
	return n
}

func (e *Enc) freshName(prefix string) string {
	e.fresh++
	return fmt.Sprintf("%s!%d", prefix, e.fresh)
}

func (e *Enc) freshConst(prefix, sort string) string {
	return e.declConst(e.freshName(prefix), sort)
}

func (e *Enc) strLit(s string) string {
	if n, ok := e.strLits[s]; ok {
		return n
	}
	n := q(fmt.Sprintf("str!%d!%s", len(e.strLits), sanitizeLit(s)))
	e.strLits[s] = n
	e.strOrder = append(e.strOrder, s)
	e.raw(n, fmt.Sprintf("(declare-fun %s () Str)", n))
	return n
}

func sanitizeLit(s string) string {
	var b strings.Builder
	for _, c := range s {
		if c >= 'a' && c <= 'z' || c >= 'A' && c <= 'Z' || c >= '0' && c <= '9' || c == '_' {
			b.WriteRune(c)
		} else {
			b.WriteByte('_')
		}
		if b.Len() > 24 {
			break
		}
	}
	return b.String()
}

// strFacts returns distinctness and length facts about string literals.
func (e *Enc) strFacts() []string {
	var out []string
	if len(e.strOrder) > 1 {
		var names []string
		for _, s := range e.strOrder {
			names = append(names, e.strLits[s])
		}
		out = append(out, "(distinct "+strings.Join(names, " ")+")")
	}
	for _, s := range e.strOrder {
		out = append(out, fmt.Sprintf("(= (str_len %s) %d)", e.strLits[s], len(s)))
		out = append(out, fmt.Sprintf("(= (str_nrunes %s) %d)", e.strLits[s], len([]rune(s))))
	}
	return out
}

func (e *Enc) typeTag(t types.Type) string {
	k := types.TypeString(t, nil)
	if n, ok := e.typeTags[k]; ok {
		return fmt.Sprint(n)
	}
	n := len(e.typeTags) + 1
	e.typeTags[k] = n
	e.tagOrder = append(e.tagOrder, k)
	return fmt.Sprint(n)
}

func pkgQual(p *types.Package) string { return p.Name() }

// typeKey: printable identity of a type with aliases resolved at every level (types.Alert == alert.Alert).
func typeKey(t types.Type) string {
	t = types.Unalias(t)
	switch u := t.(type) {
	case *types.Pointer:
		return "*" + typeKey(u.Elem())
	case *types.Slice:
		return "[]" + typeKey(u.Elem())
	case *types.Array:
		return fmt.Sprintf("[%d]%s", u.Len(), typeKey(u.Elem()))
	case *types.Map:
		return "map[" + typeKey(u.Key()) + "]" + typeKey(u.Elem())
	case *types.Chan:
		return "chan " + typeKey(u.Elem())
	}
	if n, ok := t.(*types.Named); ok && n.TypeArgs().Len() > 0 {
		return types.TypeString(n.Origin(), pkgQual)
	}
	return types.TypeString(t, pkgQual)
}

func isNamed(t types.Type, pkg, name string) bool {
	t = types.Unalias(t)
	n, ok := t.(*types.Named)
	if !ok {
		return false
	}
	o := n.Obj()
	return o.Pkg() != nil && o.Pkg().Path() == pkg && o.Name() == name
}

func namedPkg(t types.Type) string {
	t = types.Unalias(t)
	if n, ok := t.(*types.Named); ok && n.Obj().Pkg() != nil {
		return n.Obj().Pkg().Path()
	}
	return ""
}

// isTime: time.Time, or a defined type whose underlying type is time.Time's (e.g. strfmt.DateTime): both are encoded
// as the instant, so that conversions between them are the identity.
func isTime(t types.Type) bool {
	if isNamed(t, "time", "Time") {
		return true
	}
	n, ok := types.Unalias(t).(*types.Named)
	if !ok {
		return false
	}
	st, ok := n.Underlying().(*types.Struct)
	if !ok || st.NumFields() != 3 {
		return false
	}
	f := st.Field(0)
	return f.Pkg() != nil && f.Pkg().Path() == "time" && f.Name() == "wall" && st.Field(1).Name() == "ext" && st.Field(2).Name() == "loc"
}

// opaqueStruct: struct types we never look inside.
func opaqueStruct(t types.Type) bool {
	p := namedPkg(t)
	switch p {
	case "sync", "sync/atomic", "google.golang.org/protobuf/internal/impl", "google.golang.org/protobuf/runtime/protoimpl",
		"go.uber.org/atomic":
		return true
	}
	return false
}

func (e *Enc) sortOf(t types.Type) string {
	t = types.Unalias(t)
	if isTime(t) {
		return "Int"
	}
	if opaqueStruct(t) {
		return "Int"
	}
	switch u := t.Underlying().(type) {
	case *types.Basic:
		switch {
		case u.Info()&types.IsBoolean != 0:
			return "Bool"
		case u.Info()&types.IsString != 0:
			return "Str"
		case u.Info()&types.IsInteger != 0:
			return "Int"
		case u.Info()&types.IsFloat != 0:
			return "Real"
		}
		return "Int"
	case *types.Pointer, *types.Map, *types.Chan, *types.Signature, *types.Interface:
		return "Int"
	case *types.Slice:
		return "Slice"
	case *types.Array:
		return "(Array Int " + e.sortOf(u.Elem()) + ")"
	case *types.Struct:
		if u.NumFields() == 0 {
			return "Bool"
		}
		ct := canon(t)
		return e.structSort(ct, ct.Underlying().(*types.Struct))
	case *types.TypeParam:
		return "Int"
	case *types.Tuple:
		if u.Len() == 0 {
			return "Bool"
		}
		panic("sortOf tuple")
	}
	return "Int"
}

// canon maps every instance of a generic named type to the generic type itself: generic code is verified once
// over opaque type parameters, and callers that use an instantiation share its heap arrays and datatypes.
func canon(t types.Type) types.Type {
	t = types.Unalias(t)
	if n, ok := t.(*types.Named); ok && n.TypeArgs().Len() > 0 {
		return n.Origin()
	}
	return t
}

func (e *Enc) structName(t types.Type) string {
	t = canon(t)
	k := typeKey(t)
	if n, ok := t.(*types.Named); ok && n.TypeParams().Len() > 0 {
		return k
	}
	if old, ok := e.typeNames[k]; ok {
		if !types.Identical(old, t) {
			// disambiguate by full path
			k = types.TypeString(t, nil)
		}
	} else {
		e.typeNames[k] = t
	}
	return k
}

func (e *Enc) structSort(t types.Type, u *types.Struct) string {
	name := q("S$" + e.structName(t))
	if e.dtDone[name] {
		return name
	}
	e.dtDone[name] = true
	var fs []string
	for i := 0; i < u.NumFields(); i++ {
		f := u.Field(i)
		fs = append(fs, fmt.Sprintf("(%s %s)", e.accessor(t, i), e.sortOf(f.Type())))
	}
	e.raw(name, fmt.Sprintf("(declare-datatypes ((%s 0)) (((%s %s))))", name, e.ctor(t), strings.Join(fs, " ")))
	return name
}

func (e *Enc) ctor(t types.Type) string { return q("mk$" + e.structName(t)) }
func (e *Enc) accessor(t types.Type, i int) string {
	t = canon(t)
	u := t.Underlying().(*types.Struct)
	return q("get$" + e.structName(t) + "$" + u.Field(i).Name())
}

// zero value term of a Go type
func (e *Enc) zero(t types.Type) string {
	t = canon(t)
	s := e.sortOf(t)
	switch s {
	case "Int":
		return "0"
	case "Bool":
		return "false"
	case "Real":
		return "0.0"
	case "Str":
		return e.strLit("")
	case "Slice":
		return "(mk_slice 0 0 0 0)"
	}
	switch u := t.Underlying().(type) {
	case *types.Struct:
		var args []string
		for i := 0; i < u.NumFields(); i++ {
			args = append(args, e.zero(u.Field(i).Type()))
		}
		return "(" + e.ctor(t) + " " + strings.Join(args, " ") + ")"
	case *types.Array:
		return e.constArr("Int", e.sortOf(u.Elem()), e.zero(u.Elem()))
	}
	panic("zero: " + t.String())
}

func (e *Enc) zeroOfSort(s string) string {
	switch s {
	case "Int":
		return "0"
	case "Bool":
		return "false"
	case "Real":
		return "0.0"
	case "Str":
		return e.strLit("")
	case "Slice":
		return "(mk_slice 0 0 0 0)"
	}
	return ""
}

// term helpers
func app(op string, args ...string) string {
	return "(" + op + " " + strings.Join(args, " ") + ")"
}
func and(xs ...string) string {
	var ys []string
	for _, x := range xs {
		if x == "true" {
			continue
		}
		if x == "false" {
			return "false"
		}
		ys = append(ys, x)
	}
	if len(ys) == 0 {
		return "true"
	}
	if len(ys) == 1 {
		return ys[0]
	}
	return app("and", ys...)
}
func or(xs ...string) string {
	var ys []string
	for _, x := range xs {
		if x == "false" {
			continue
		}
		if x == "true" {
			return "true"
		}
		ys = append(ys, x)
	}
	if len(ys) == 0 {
		return "false"
	}
	if len(ys) == 1 {
		return ys[0]
	}
	return app("or", ys...)
}
func not(x string) string {
	if x == "true" {
		return "false"
	}
	if x == "false" {
		return "true"
	}
	if strings.HasPrefix(x, "(not ") && balancedPrefix(x) {
		return x[5 : len(x)-1]
	}
	return app("not", x)
}
func balancedPrefix(x string) bool {
	// check that x is exactly "(not <one term>)"
	depth := 0
	inq := false
	terms := 0
	for i := 5; i < len(x)-1; i++ {
		c := x[i]
		if inq {
			if c == '|' {
				inq = false
				if depth == 0 {
					terms++
				}
			}
			continue
		}
		switch c {
		case '|':
			inq = true
		case '(':
			depth++
		case ')':
			depth--
			if depth == 0 {
				terms++
			}
		case ' ':
		default:
			if depth == 0 && (i == 5 || x[i-1] == ' ') {
				terms++
			}
		}
	}
	return terms == 1
}
func implies(a, b string) string {
	if a == "true" {
		return b
	}
	if b == "true" {
		return "true"
	}
	return app("=>", a, b)
}
func ite(c, a, b string) string {
	if c == "true" {
		return a
	}
	if c == "false" {
		return b
	}
	if a == b {
		return a
	}
	return app("ite", c, a, b)
}
func eq(a, b string) string {
	if a == b {
		return "true"
	}
	return app("=", a, b)
}
func sel(a, i string) string      { return app("select", a, i) }
func sto(a, i, v string) string   { return app("store", a, i, v) }
func intLit(n int64) string {
	if n < 0 {
		return fmt.Sprintf("(- %d)", -n)
	}
	return fmt.Sprint(n)
}

func sortedKeys[V any](m map[string]V) []string {
	ks := make([]string, 0, len(m))
	for k := range m {
		ks = append(ks, k)
	}
	sort.Strings(ks)
	return ks
}

// constArr: constant array term; elements that are not SMT values (they mention declared constants
// such as string literals) are expressed through a declared array with a defining axiom (cvc5 rejects them in `as const`).
func (e *Enc) constArr(ks, vs, elem string) string {
	srt := "(Array " + ks + " " + vs + ")"
	if !strings.Contains(elem, "str!") {
		return fmt.Sprintf("((as const %s) %s)", srt, elem)
	}
	name := q("constarr$" + ks + "$" + vs)
	if !e.declared[name] {
		e.raw(name, fmt.Sprintf("(declare-fun %s () %s)", name, srt))
		e.axioms = append(e.axioms, fmt.Sprintf("(forall ((i!c %s)) (! (= (select %s i!c) %s) :pattern ((select %s i!c))))", ks, name, elem, name))
	}
	return name
}
