package main

// Symbolic execution of go/ssa functions into assumptions + obligations.

import (
	"fmt"
	"go/constant"
	"go/token"
	"go/types"
	"math/big"
	"regexp"
	"strconv"
	"strings"

	"golang.org/x/tools/go/ssa"
)

type deferRec struct {
	flag  string // ghost heap name "$defer:<n>"
	instr *ssa.Defer
	args  []Val
	fnv   Val
}

type Frame struct {
	curBlock *ssa.BasicBlock // block being executed (for resolving locals in at-call / after-call clauses)
	callBind []Val // bindings of the closure being called under contract
	u      *Unit
	fn     *ssa.Function
	prefix string
	vals   map[ssa.Value]Val
	depth  int
	fc     *FuncContract
	params []Val
	free   []Val
	defers []*deferRec
	// results of returns
	rets   []retRec
	entry  *State // state at function entry (for old())
	parent *Frame
	loops  []*ssa.BasicBlock
	openLoops map[*ssa.BasicBlock]*loopCtx
	top    bool
	lastLookupAddr bool
	loopPre map[*ssa.BasicBlock]*State
}

type retRec struct {
	st   *State
	vals []Val
	pos  token.Pos
}

type loopCtx struct {
	header  *ssa.BasicBlock
	ordinal int
	phiVals map[*ssa.Phi]Val
	auto    []autoFrame
}

// autoFrame: a candidate loop frame ("rows of objects that existed before the loop keep their value")
// assumed at the loop head and checked at every back edge; dropped (Houdini style) if the check fails.
type autoFrame struct {
	heap, preH, alloc, key string
}

const maxInlineDepth = 5

func (u *Unit) newFrame(fn *ssa.Function, parent *Frame) *Frame {
	u.nframes++
	fr := &Frame{u: u, fn: fn, vals: map[ssa.Value]Val{}, parent: parent, openLoops: map[*ssa.BasicBlock]*loopCtx{}}
	if parent != nil {
		fr.depth = parent.depth + 1
		fr.prefix = fmt.Sprintf("f%d.", u.nframes)
	}
	fr.fc = u.cx.contractFor(fn)
	fr.loops = loopHeaders(fn)
	return fr
}

func (fr *Frame) name(v ssa.Value) string {
	return fr.prefix + v.Name()
}

func (fr *Frame) define(v ssa.Value, val Val) {
	u := fr.u
	if val.Tup != nil || val.Loc != nil || val.Iter != nil || val.BoxLoc != nil {
		fr.vals[v] = val
		return
	}
	if val.S == "" {
		val.S = u.enc.sortOf(v.Type())
	}
	if val.Ty == nil {
		val.Ty = v.Type()
	}
	if isSimpleTerm(val.T) || u.dry > 0 {
		fr.vals[v] = val
		return
	}
	c := u.enc.declConst(fr.name(v)+"!"+fmt.Sprint(u.enc.fresh), val.S)
	u.enc.fresh++
	u.assume(eq(c, val.T))
	val.T = c
	fr.vals[v] = val
}

func isSimpleTerm(t string) bool {
	return !strings.ContainsAny(t, " (")
}

func (fr *Frame) get(v ssa.Value) Val {
	u := fr.u
	if val, ok := fr.vals[v]; ok {
		return val
	}
	switch c := v.(type) {
	case *ssa.Const:
		return u.constVal(c)
	case *ssa.Function:
		return Val{T: u.enc.declConst("fn$"+c.String(), "Int"), S: "Int", Fn: c, Ty: c.Type()}
	case *ssa.Global:
		t := c.Type().(*types.Pointer).Elem()
		name := "G$" + c.Pkg.Pkg.Name() + "." + c.Name()
		u.regHeap(name, "(Array Int "+u.enc.sortOf(t)+")")
		return Val{Loc: &Loc{Heap: name, Idx: []string{"0"}, Ty: t}, Ty: c.Type()}
	case *ssa.Builtin:
		return Val{T: "0", S: "Int"}
	}
	u.unsup("value %s (%T) used before definition in %s", v.Name(), v, fr.fn)
	return Val{}
}

func (u *Unit) constVal(c *ssa.Const) Val {
	t := c.Type()
	if c.Value == nil {
		if _, ok := t.Underlying().(*types.Tuple); ok {
			return Val{T: "false", S: "Bool", Ty: t}
		}
		return Val{T: u.enc.zero(t), S: u.enc.sortOf(t), Ty: t}
	}
	s := u.enc.sortOf(t)
	switch c.Value.Kind() {
	case constant.Bool:
		return Val{T: fmt.Sprint(constant.BoolVal(c.Value)), S: "Bool", Ty: t}
	case constant.String:
		return Val{T: u.enc.strLit(constant.StringVal(c.Value)), S: "Str", Ty: t}
	case constant.Int:
		if s == "Real" {
			f, _ := constant.Float64Val(c.Value)
			return Val{T: realLit(f), S: "Real", Ty: t}
		}
		bi, ok := constant.Val(c.Value).(*big.Int)
		if ok {
			if bi.Sign() < 0 {
				return Val{T: "(- " + new(big.Int).Neg(bi).String() + ")", S: "Int", Ty: t}
			}
			return Val{T: bi.String(), S: "Int", Ty: t}
		}
		n, _ := constant.Int64Val(c.Value)
		return Val{T: intLit(n), S: "Int", Ty: t}
	case constant.Float:
		f, _ := constant.Float64Val(c.Value)
		if s == "Int" {
			return Val{T: intLit(int64(f)), S: "Int", Ty: t}
		}
		return Val{T: realLit(f), S: "Real", Ty: t}
	}
	return Val{T: u.enc.freshConst("const", s), S: s, Ty: t}
}

func realLit(f float64) string {
	s := fmt.Sprintf("%f", f)
	if f < 0 {
		return "(- " + s[1:] + ")"
	}
	return s
}

// ---------------------------------------------------------------------------
// function execution

// execFunction runs fn from state st with the given args; returns merged exit state and results.
func (fr *Frame) run(st *State) (*State, []Val) {
	fn := fr.fn
	u := fr.u
	if len(fn.Blocks) == 0 {
		u.unsup("function %s has no body", fn)
	}
	fr.entry = st.clone()
	order := rpo(fn)
	all := map[*ssa.BasicBlock]bool{}
	for _, b := range order {
		all[b] = true
	}
	fr.runRegion(order, all, fn.Blocks[0], st, nil)
	if len(fr.rets) == 0 {
		// no return reachable (e.g. infinite loop or always panics)
		dead := st.clone()
		dead.guard = "false"
		var rv []Val
		res := fn.Signature.Results()
		for i := 0; i < res.Len(); i++ {
			rv = append(rv, Val{T: u.enc.zero(res.At(i).Type()), S: u.enc.sortOf(res.At(i).Type()), Ty: res.At(i).Type()})
		}
		return dead, rv
	}
	// merge returns
	var sts []*State
	for _, r := range fr.rets {
		sts = append(sts, r.st)
	}
	out := u.mergeStates(sts)
	nres := fn.Signature.Results().Len()
	res := make([]Val, nres)
	for i := 0; i < nres; i++ {
		rt := fn.Signature.Results().At(i).Type()
		allRef := true
		for _, r := range fr.rets {
			if r.vals[i].Loc != nil {
				allRef = false
			}
		}
		if !allRef {
			if len(fr.rets) == 1 {
				res[i] = fr.rets[0].vals[i]
				continue
			}
			u.unsup("returning sub-location pointers from multiple returns in %s", fn)
		}
		t := fr.rets[len(fr.rets)-1].vals[i].T
		for k := len(fr.rets) - 2; k >= 0; k-- {
			t = ite(fr.rets[k].st.guard, fr.rets[k].vals[i].T, t)
		}
		v := Val{T: t, S: u.enc.sortOf(rt), Ty: rt}
		if len(fr.rets) == 1 {
			v = fr.rets[0].vals[i]
			v.Ty = rt
		} else if !isSimpleTerm(t) && u.dry == 0 {
			c := u.enc.freshConst(fr.prefix+"ret", v.S)
			u.assume(eq(c, t))
			v.T = c
		}
		res[i] = v
	}
	return out, res
}

// earlyExit: `loop N earlyexit expr` clauses. Leaving loop N from a block other than its header (break, goto, return:
// to == nil) is allowed only in states where expr holds; `loop N earlyexit false` says the loop always runs to the end
// of its range / until its condition fails.
func (fr *Frame) earlyExit(st *State, from, to *ssa.BasicBlock) {
	u := fr.u
	if fr.fc == nil || len(fr.fc.EarlyExits) == 0 || u.dry > 0 || !fr.top || st.guard == "false" {
		return
	}
	for ord := 1; ord <= len(fr.loops); ord++ {
		cls := fr.fc.EarlyExits[ord]
		if len(cls) == 0 {
			continue
		}
		h := fr.loops[ord-1]
		if from == h {
			continue
		}
		body := loopBody(h)
		if !body[from] || (to != nil && body[to]) {
			continue
		}
		for i, c := range cls {
			env := fr.specEnv(st, fr.entry)
			env.header = fr.innermostLoopHeader(from)
			env.softHeader = true
			t := trBoolTol(env, c, "false")
			u.oblige(st, "at", fmt.Sprintf("%s/exit:%d.%s", fr.fnLabel(), ord, clauseName(c, i)), t, blockPos(from), c, fmt.Sprintf("loop %d left early only if: %s", ord, c.Src))
		}
	}
}

type edgeIn struct {
	from *ssa.BasicBlock
	st   *State
}

// runRegion executes the blocks of `order` that are in `set`, starting at entry.
// loopHead != nil means we are dry-running the body of that loop (its header is the entry, back edges are collected).
func (fr *Frame) runRegion(order []*ssa.BasicBlock, set map[*ssa.BasicBlock]bool, entry *ssa.BasicBlock, st0 *State, dryHead *ssa.BasicBlock) (backStates []*State) {
	u := fr.u
	incoming := map[*ssa.BasicBlock][]edgeIn{}
	incoming[entry] = []edgeIn{{nil, st0}}
	for _, blk := range order {
		if !set[blk] {
			continue
		}
		ins := incoming[blk]
		if len(ins) == 0 {
			continue
		}
		var st *State
		isHeader := false
		for _, p := range blk.Preds {
			if blk.Dominates(p) {
				isHeader = true
			}
		}
		if isHeader && blk != dryHead {
			st = fr.enterLoop(order, blk, ins)
		} else if blk == dryHead {
			st = ins[0].st.clone()
			// havoc phis
			for _, in := range blk.Instrs {
				phi, ok := in.(*ssa.Phi)
				if !ok {
					break
				}
				fr.vals[phi] = fr.havocVal(phi.Type(), fr.name(phi))
			}
		} else {
			var sts []*State
			for _, e := range ins {
				sts = append(sts, e.st)
			}
			st = u.mergeStates(sts)
			// phis
			for _, in := range blk.Instrs {
				phi, ok := in.(*ssa.Phi)
				if !ok {
					break
				}
				fr.definePhi(phi, blk, ins)
			}
		}
		if st.guard == "false" {
			continue
		}
		// execute
		fr.curBlock = blk
		for _, in := range blk.Instrs {
			if _, ok := in.(*ssa.Phi); ok {
				continue
			}
			fr.exec(st, in)
		}
		// terminator
		last := blk.Instrs[len(blk.Instrs)-1]
		type outEdge struct {
			to   *ssa.BasicBlock
			cond string
		}
		var outs []outEdge
		switch t := last.(type) {
		case *ssa.If:
			c := fr.get(t.Cond).T
			outs = append(outs, outEdge{blk.Succs[0], c}, outEdge{blk.Succs[1], not(c)})
		case *ssa.Jump:
			outs = append(outs, outEdge{blk.Succs[0], "true"})
		case *ssa.Return, *ssa.Panic:
		default:
			u.unsup("unknown terminator %T", last)
		}
		if _, isRet := last.(*ssa.Return); isRet {
			fr.earlyExit(st, blk, nil)
		}
		for _, oe := range outs {
			es := st.clone()
			es.guard = and(st.guard, oe.cond)
			if !isSimpleTerm(es.guard) && u.dry == 0 {
				g := u.enc.freshConst("e", "Bool")
				u.assume(eq(g, es.guard))
				es.guard = g
			}
			fr.earlyExit(es, blk, oe.to)
			if oe.to.Dominates(blk) {
				// back edge
				if oe.to == dryHead {
					backStates = append(backStates, es)
				} else if lc, ok := fr.openLoops[oe.to]; ok {
					fr.closeLoop(lc, blk, es)
				} else if !set[oe.to] {
					// back edge of an enclosing loop that is itself being dry-run: leaves this region
				} else {
					u.unsup("back edge to unopened loop in %s", fr.fn)
				}
				continue
			}
			if !set[oe.to] {
				continue // leaves region (dry-run)
			}
			incoming[oe.to] = append(incoming[oe.to], edgeIn{blk, es})
		}
	}
	return backStates
}

func (fr *Frame) definePhi(phi *ssa.Phi, blk *ssa.BasicBlock, ins []edgeIn) {
	u := fr.u
	// value per incoming edge
	type pe struct {
		g string
		v Val
	}
	var es []pe
	for _, e := range ins {
		for i, p := range blk.Preds {
			if p == e.from {
				es = append(es, pe{e.st.guard, fr.get(phi.Edges[i])})
				break
			}
		}
	}
	if len(es) == 0 {
		u.unsup("phi without edges")
	}
	if len(es) == 1 {
		fr.vals[phi] = es[0].v
		return
	}
	for _, e := range es {
		if e.v.Loc != nil || e.v.Tup != nil {
			u.unsup("phi of sub-location pointers in %s", fr.fn)
		}
	}
	t := es[len(es)-1].v.T
	for i := len(es) - 2; i >= 0; i-- {
		t = ite(es[i].g, es[i].v.T, t)
	}
	v := Val{T: t, Ty: phi.Type()}
	// time values: merge the locations they carry
	anyZone := false
	for _, e := range es {
		if e.v.Zone != "" {
			anyZone = true
		}
	}
	if anyZone {
		z := u.zoneOf(es[len(es)-1].v)
		for i := len(es) - 2; i >= 0; i-- {
			z = ite(es[i].g, u.zoneOf(es[i].v), z)
		}
		v.Zone = z
	}
	// keep static function knowledge if all equal
	allFn := es[0].v.Fn
	for _, e := range es {
		if e.v.Fn != allFn {
			allFn = nil
		}
	}
	v.Fn = allFn
	if allFn != nil {
		v.Bind = es[0].v.Bind
	}
	fr.define(phi, v)
}

func (fr *Frame) havocVal(t types.Type, name string) Val {
	u := fr.u
	if tup, ok := t.(*types.Tuple); ok {
		var vs []Val
		for i := 0; i < tup.Len(); i++ {
			vs = append(vs, fr.havocVal(tup.At(i).Type(), fmt.Sprintf("%s.%d", name, i)))
		}
		return Val{Tup: vs}
	}
	s := u.enc.sortOf(t)
	c := u.enc.freshConst(name, s)
	v := Val{T: c, S: s, Ty: t}
	u.typeFacts(v)
	return v
}

// typeFacts: assumptions every Go value of this type satisfies.
func (u *Unit) typeFacts(v Val) {
	if v.Ty == nil {
		return
	}
	t := types.Unalias(v.Ty)
	switch ut := t.Underlying().(type) {
	case *types.Slice:
		u.assume(and(app("<=", "0", app("sl_off", v.T)), app("<=", "0", app("sl_len", v.T)), app("<=", app("sl_len", v.T), app("sl_cap", v.T)),
			app(">=", app("sl_base", v.T), "0"),
			implies(eq(app("sl_base", v.T), "0"), eq(app("sl_cap", v.T), "0"))))
	case *types.Basic:
		if ut.Info()&types.IsUnsigned != 0 {
			u.assume(app(">=", v.T, "0"))
		}
	case *types.Pointer, *types.Map:
		if v.Loc == nil && v.T != "" {
			u.assume(app(">=", v.T, "0"))
		}
	}
}

// ---------------------------------------------------------------------------
// loops

func (fr *Frame) loopOrdinal(h *ssa.BasicBlock) int {
	for i, x := range fr.loops {
		if x == h {
			return i + 1
		}
	}
	return 0
}

func (fr *Frame) enterLoop(order []*ssa.BasicBlock, h *ssa.BasicBlock, ins []edgeIn) *State {
	u := fr.u
	var sts []*State
	for _, e := range ins {
		sts = append(sts, e.st)
	}
	pre := u.mergeStates(sts)
	if fr.loopPre == nil {
		fr.loopPre = map[*ssa.BasicBlock]*State{}
	}
	fr.loopPre[h] = pre.clone()
	ord := fr.loopOrdinal(h)
	// 1. phi values on entry
	for _, in := range h.Instrs {
		phi, ok := in.(*ssa.Phi)
		if !ok {
			break
		}
		fr.definePhi(phi, h, ins)
	}
	// make sure ghost visited sets of map ranges created before this loop exist in state
	// 2. inv-entry
	var invs []*Clause
	if fr.fc != nil {
		invs = fr.fc.Invariants[ord]
	}
	for i, c := range invs {
		for _, pc := range fr.splitClause(c) {
			t := fr.trInvariantTol(pc.c, pre, h, "false")
			u.oblige(pre, "inv-entry", fmt.Sprintf("%s/inv-entry:%d.%s%s", fr.fnLabel(), ord, clauseName(c, i), pc.suffix), t, blockPos(h), c, "loop invariant holds on entry: "+pc.c.Src)
		}
	}
	// 3. dry run to find touched heaps (and, per heap, the rows written at loop-invariant indices)
	body := loopBody(h)
	savedVals := make(map[ssa.Value]Val, len(fr.vals))
	for k, v := range fr.vals {
		savedVals[k] = v
	}
	savedRets := fr.rets
	savedDefers := fr.defers
	savedRows, savedWhole, savedFresh := u.dryRows, u.dryWhole, u.dryFresh
	u.dryRows, u.dryWhole, u.dryFresh = map[string]map[string]bool{}, map[string]bool{}, map[string]bool{}
	startFresh := u.enc.fresh
	u.dry++
	// start the dry run from a state in which every heap has a fresh name, so that any term that
	// depends on memory is recognisably loop-variant
	dst := pre.clone()
	u.epochCtr++
	dst.epoch = u.epochCtr
	dryEpoch := dst.epoch
	for k := range u.heapSort {
		if strings.HasPrefix(k, "$defer:") || strings.HasPrefix(k, "$called:") || strings.HasPrefix(k, "$count:") || strings.HasPrefix(k, "$cnttrue:") {
			if _, ok := dst.heaps[k]; !ok {
				continue
			}
		}
		dst.heaps[k] = u.enc.freshConst(k+"@dry", u.heapSort[k])
	}
	dstart := dst.clone()
	backs := fr.runRegion(order, body, h, dst, h)
	u.dry--
	rows, whole, freshH := u.dryRows, u.dryWhole, u.dryFresh
	u.dryRows, u.dryWhole, u.dryFresh = savedRows, savedWhole, savedFresh
	fr.rets = savedRets
	fr.defers = savedDefers
	touched := map[string]bool{}
	havocEverything := false
	for _, b := range backs {
		if b.epoch != dryEpoch {
			havocEverything = true
		}
		for k, v := range b.heaps {
			if _, ok := u.heapSort[k]; !ok {
				continue
			}
			if dv, ok := dstart.heaps[k]; !ok || dv != v {
				touched[k] = true
			}
		}
	}
	fr.vals = savedVals
	// 4. havoc
	st := pre.clone()
	if havocEverything {
		u.havocAll(st)
	}
	oldAlloc := u.heapCur(pre, "$alloc")
	oldClock := u.heapCur(pre, "$clock")
	var rowCells [][2]string
	var autos []autoFrame
	for _, k := range sortedKeys(touched) {
		srt := u.heapSort[k]
		rowOK := !whole[k] && (len(rows[k]) > 0 || freshH[k]) && strings.HasPrefix(srt, "(Array Int ")
		var invRows []string
		freshRows := freshH[k]
		if rowOK {
			for _, idx := range sortedKeys(rows[k]) {
				switch {
				case termOlderThan(idx, startFresh):
					invRows = append(invRows, idx)
				case u.freshRefs[idx]:
					freshRows = true // a row of an object allocated inside the loop body
				default:
					rowOK = false
				}
			}
		}
		if rowOK && !freshRows {
			cellSort := arrayRange(srt)
			for _, idx := range invRows {
				c := u.enc.freshConst(k+"@row", cellSort)
				u.heapStoreAt(st, k, idx, c)
				rowCells = append(rowCells, [2]string{k, c})
				if strings.HasPrefix(k, "MD$") {
					ks := arrayDomain(arrayRange(u.heapSort[k]))
					u.assume(app(">=", u.card(ks, c), "0"))
					u.assume(implies(eq(idx, "0"), eq(c, u.emptySet(ks))))
				}
			}
		} else if rowOK {
			// only rows of loop-allocated objects (and some loop-invariant rows) are written:
			// every other pre-existing row keeps its value
			preH := u.heapCur(pre, k)
			if u.dry > 0 {
				// tell the enclosing loop's dry run: framed havoc, not a whole-heap write
				if u.dryRows[k] == nil {
					u.dryRows[k] = map[string]bool{}
				}
				for _, idx := range invRows {
					u.dryRows[k][idx] = true
				}
				u.dryFresh[k] = true
			}
			savedW := u.dryWhole[k]
			nh := u.heapHavoc(st, k)
			if u.dry > 0 {
				u.dryWhole[k] = savedW
			}
			cond := "(<= r!f " + oldAlloc + ")"
			for _, idx := range invRows {
				cond = and(cond, not(eq("r!f", idx)))
			}
			u.assume(fmt.Sprintf("(forall ((r!f Int)) (! (=> %s (= (select %s r!f) (select %s r!f))) :pattern ((select %s r!f))))", cond, nh, preH, nh))
			if strings.HasPrefix(k, "MD$") {
				ks := arrayDomain(arrayRange(u.heapSort[k]))
				u.assume(fmt.Sprintf("(forall ((r!f Int)) (! (>= (%s (select %s r!f)) 0) :pattern ((select %s r!f))))", u.enc.declFun("card$"+ks, []string{"(Array " + ks + " Bool)"}, "Int"), nh, nh))
			}
		} else if key := fmt.Sprintf("%s|%d|%s", fr.fn.String(), ord, k); u.dry == 0 && strings.HasPrefix(srt, "(Array Int ") && !u.blacklist[key+"|fn"] && !strings.HasPrefix(k, "$") {
			// candidate: the loop only writes rows of objects allocated after the loop was entered
			// (tier 1) or, failing that, after the function was entered (tier 2)
			bound := oldAlloc
			if u.blacklist[key] {
				key += "|fn"
				bound = u.heapCur(fr.topFrame().entry, "$alloc")
			}
			preH := u.heapCur(pre, k)
			nh := u.heapHavoc(st, k)
			u.assume(fmt.Sprintf("(forall ((r!f Int)) (! (=> (<= r!f %s) (= (select %s r!f) (select %s r!f))) :pattern ((select %s r!f))))", bound, nh, preH, nh))
			autos = append(autos, autoFrame{heap: k, preH: preH, alloc: bound, key: key})
		} else {
			u.heapHavoc(st, k)
		}
	}
	if touched["$alloc"] {
		u.assume(app(">=", u.heapCur(st, "$alloc"), oldAlloc))
	}
	u.flushBounds(st)
	if touched["$clock"] {
		u.assume(app(">=", u.heapCur(st, "$clock"), oldClock))
	}
	for _, rc := range rowCells {
		alloc := u.heapCur(st, "$alloc")
		switch u.heapPtr[rc[0]] {
		case "cell":
			u.assume(app("<=", rc[1], alloc))
		case "slicecell":
			u.assume(app("<=", app("sl_base", rc[1]), alloc))
		case "mapval", "arr":
			ks := arrayDomain(arrayRange(u.heapSort[rc[0]]))
			u.assume(fmt.Sprintf("(forall ((k!b %s)) (! (<= (select %s k!b) %s) :pattern ((select %s k!b))))", ks, rc[1], alloc, rc[1]))
		case "slicemapval", "slicearr":
			ks := arrayDomain(arrayRange(u.heapSort[rc[0]]))
			u.assume(fmt.Sprintf("(forall ((k!b %s)) (! (<= (sl_base (select %s k!b)) %s) :pattern ((select %s k!b))))", ks, rc[1], alloc, rc[1]))
		}
	}
	lc := &loopCtx{header: h, ordinal: ord, phiVals: map[*ssa.Phi]Val{}, auto: autos}
	for _, in := range h.Instrs {
		phi, ok := in.(*ssa.Phi)
		if !ok {
			break
		}
		hv := fr.havocVal(phi.Type(), fr.name(phi)+"@loop")
		u.loadedFacts(st, hv) // loop-carried references are allocated ones
		fr.vals[phi] = hv
		lc.phiVals[phi] = hv
		// slice range index facts: rangeindex >= -1
		if phi.Comment == "rangeindex" {
			u.assume(app(">=", hv.T, "(- 1)"))
		}
	}
	fr.openLoops[h] = lc
	// 5. assume invariants
	for _, c := range invs {
		t := fr.trInvariantTol(c, st, h, "true")
		u.assumeG(st, t)
	}
	if len(invs) == 0 {
		u.note("loop %d of %s has no invariant (havoc only)", ord, fr.fn)
	}
	return st
}

var freshNumRe = regexp.MustCompile(`!(\d+)`)

// termOlderThan: every generated name in t was created before counter value n.
func termOlderThan(t string, n int) bool {
	for _, m := range freshNumRe.FindAllStringSubmatch(t, -1) {
		k, _ := strconv.Atoi(m[1])
		if k >= n {
			return false
		}
	}
	return true
}

func clauseName(c *Clause, i int) string {
	if c.Label != "" {
		return c.Label
	}
	return fmt.Sprint(i + 1)
}

func (fr *Frame) fnLabel() string {
	f := fr.fn
	if f.Pkg != nil {
		return f.Pkg.Pkg.Name() + "." + f.RelString(f.Pkg.Pkg)
	}
	return f.String()
}

func (fr *Frame) closeLoop(lc *loopCtx, from *ssa.BasicBlock, st *State) {
	u := fr.u
	h := lc.header
	// bind phis to back-edge values temporarily
	saved := map[*ssa.Phi]Val{}
	for _, in := range h.Instrs {
		phi, ok := in.(*ssa.Phi)
		if !ok {
			break
		}
		saved[phi] = fr.vals[phi]
		for i, p := range h.Preds {
			if p == from {
				fr.vals[phi] = fr.get(phi.Edges[i])
			}
		}
	}
	var invs []*Clause
	if fr.fc != nil {
		invs = fr.fc.Invariants[lc.ordinal]
	}
	if len(invs) > 0 && fr.parent == nil {
		// vacuity: the back edge is reachable under everything assumed so far
		if cov := u.oblige(st, "cover", fmt.Sprintf("%s/cover:loop%d.back", fr.fnLabel(), lc.ordinal), "true", blockPos(from), nil, "loop back edge reachable (assumptions not contradictory)"); cov != nil {
			cov.Cover = true
		}
	}
	for i, c := range invs {
		for _, pc := range fr.splitClause(c) {
			t := fr.trInvariantTol(pc.c, st, h, "false")
			u.oblige(st, "inv-keep", fmt.Sprintf("%s/inv-keep:%d.%s%s", fr.fnLabel(), lc.ordinal, clauseName(c, i), pc.suffix), t, blockPos(from), c, "loop invariant preserved: "+pc.c.Src)
		}
	}
	for phi, v := range saved {
		fr.vals[phi] = v
	}
	if u.dry == 0 {
		for _, af := range lc.auto {
			cond := fmt.Sprintf("(forall ((r!f Int)) (=> (<= r!f %s) (= (select %s r!f) (select %s r!f))))", af.alloc, u.heapCur(st, af.heap), af.preH)
			o := u.oblige(st, "inv-keep", fmt.Sprintf("%s/inv-keep:%d.auto-frame:%s", fr.fnLabel(), lc.ordinal, af.heap), cond, blockPos(from), nil, "inferred loop frame: pre-existing rows of "+af.heap+" unchanged")
			if o != nil {
				// checked (in parallel) when the unit is complete; a failing candidate is withdrawn on the next build
				u.pendingAuto = append(u.pendingAuto, pendingAuto{o, af.key})
			}
		}
	}
}

// ---------------------------------------------------------------------------
// instructions

func (fr *Frame) exec(st *State, in ssa.Instruction) {
	u := fr.u
	switch i := in.(type) {
	case *ssa.DebugRef:
	case *ssa.Alloc:
		fr.execAlloc(st, i)
	case *ssa.BinOp:
		fr.define(i, fr.binop(st, i))
	case *ssa.UnOp:
		fr.execUnOp(st, i)
	case *ssa.Store:
		p := fr.get(i.Addr)
		fr.safeNonNil(st, p, i.Pos(), "store through nil pointer")
		v := fr.get(i.Val)
		t := i.Addr.Type().Underlying().(*types.Pointer).Elem()
		if v.Loc != nil && v.T == "" {
			v = u.snapshotInterior(st, v)
		}
		u.store(st, p, t, v)
	case *ssa.FieldAddr:
		p := fr.get(i.X)
		fr.safeNonNil(st, p, i.Pos(), "field address of nil pointer")
		stT := i.X.Type().Underlying().(*types.Pointer).Elem()
		fr.vals[i] = Val{Loc: u.fieldLoc(p, stT, i.Field), Ty: i.Type()}
	case *ssa.Field:
		x := fr.get(i.X)
		stT := i.X.Type()
		fr.define(i, Val{T: app(u.enc.accessor(stT, i.Field), x.T)})
	case *ssa.IndexAddr:
		fr.execIndexAddr(st, i)
	case *ssa.Index:
		x := fr.get(i.X)
		ix := fr.get(i.Index)
		switch xt := i.X.Type().Underlying().(type) {
		case *types.Array:
			fr.safe(st, and(app("<=", "0", ix.T), app("<", ix.T, fmt.Sprint(xt.Len()))), i.Pos(), "index", "array index in range")
			fr.define(i, Val{T: sel(x.T, ix.T)})
		case *types.Basic: // string index
			f := u.enc.declFun("str_at", []string{"Str", "Int"}, "Int")
			fr.safe(st, and(app("<=", "0", ix.T), app("<", ix.T, app("str_len", x.T))), i.Pos(), "index", "string index in range")
			fr.define(i, Val{T: app(f, x.T, ix.T)})
		default:
			u.unsup("Index on %s", i.X.Type())
		}
	case *ssa.Lookup:
		fr.execLookup(st, i)
	case *ssa.MapUpdate:
		fr.execMapUpdate(st, i)
	case *ssa.MakeMap:
		r := u.newRef(st)
		m := i.Type().Underlying().(*types.Map)
		dom, _, ks, _ := u.mapHeaps(m)
		u.heapStoreAt(st, dom, r, u.emptySet(ks))
		fr.define(i, Val{T: r})
	case *ssa.MakeSlice:
		r := u.newRef(st)
		ln := fr.get(i.Len)
		cp := fr.get(i.Cap)
		fr.safe(st, and(app("<=", "0", ln.T), app("<=", ln.T, cp.T)), i.Pos(), "makeslice", "0 <= len <= cap in make")
		el := i.Type().Underlying().(*types.Slice).Elem()
		h := u.arrHeap(el)
		es := u.enc.sortOf(el)
		u.heapStoreAt(st, h, r, u.enc.constArr("Int", es, u.enc.zero(el)))
		fr.define(i, Val{T: app("mk_slice", r, "0", ln.T, cp.T)})
	case *ssa.MakeChan:
		// a channel is a fresh reference; its (immutable) capacity is recorded for cap(ch)
		sz := fr.get(i.Size)
		fr.safe(st, app("<=", "0", sz.T), i.Pos(), "makechan", "channel size not negative in make")
		r := u.newRef(st)
		u.assume(eq(app(u.chanCapFn(), r), sz.T))
		fr.define(i, Val{T: r})
	case *ssa.MakeClosure:
		f := i.Fn.(*ssa.Function)
		var bind []Val
		for _, b := range i.Bindings {
			bind = append(bind, fr.get(b))
		}
		r := u.newRef(st)
		fr.vals[i] = Val{T: r, S: "Int", Fn: f, Bind: bind, Ty: i.Type()}
	case *ssa.MakeInterface:
		fr.define(i, fr.box(st, fr.get(i.X), i.X.Type()))
	case *ssa.ChangeInterface:
		fr.define(i, fr.get(i.X))
	case *ssa.ChangeType:
		v := fr.get(i.X)
		v.Ty = i.Type()
		if v.Loc != nil || v.Fn != nil {
			fr.vals[i] = v
		} else {
			fr.define(i, Val{T: v.T, S: v.S})
		}
	case *ssa.Convert:
		fr.execConvert(st, i)
	case *ssa.SliceToArrayPointer:
		u.unsup("SliceToArrayPointer")
	case *ssa.TypeAssert:
		fr.execTypeAssert(st, i)
	case *ssa.Extract:
		t := fr.get(i.Tuple)
		if t.Tup == nil {
			u.unsup("extract from non-tuple")
		}
		v := t.Tup[i.Index]
		if v.Loc != nil || v.Tup != nil || v.Fn != nil {
			fr.vals[i] = v
		} else {
			fr.define(i, v)
		}
	case *ssa.Slice:
		fr.execSlice(st, i)
	case *ssa.Range:
		fr.execRange(st, i)
	case *ssa.Next:
		fr.execNext(st, i)
	case *ssa.Call:
		v := fr.call(st, i, &i.Call)
		if v.Tup != nil || v.Loc != nil || v.Fn != nil {
			fr.vals[i] = v
		} else if i.Type() != nil {
			if tup, ok := i.Type().(*types.Tuple); ok && tup.Len() == 0 {
				// no result
			} else {
				fr.define(i, v)
			}
		}
	case *ssa.Defer:
		fr.execDefer(st, i)
	case *ssa.RunDefers:
		fr.runDefers(st)
	case *ssa.Go:
		u.abstracted = true
		u.note("go statement in %s: spawned function not executed here (abstracted)", fr.fn)
		// ghost event: visible to contracts as called("go.stmt") / count("go.stmt")
		// "go:<spawned function>" carries the arguments handed to the spawned function (arg0..)
		if gn := goCalleeName(i); gn != "" {
			var gargs []Val
			for _, a := range i.Call.Args {
				gargs = append(gargs, fr.get(a))
			}
			fr.atCall(st, "go:"+gn, gargs, i.Pos())
			fr.afterCallA(st, "go:"+gn, Val{T: "true", S: "Bool"}, gargs)
		}
		fr.afterCall(st, "go.stmt", Val{T: "true", S: "Bool"})
	case *ssa.Send:
		u.abstracted = true
		u.note("channel send in %s abstracted (no effect on modelled state)", fr.fn)
		fr.atCall(st, "chan.send", []Val{fr.get(i.X), fr.get(i.Chan)}, i.Pos())
		fr.afterCall(st, "chan.send", Val{T: "true", S: "Bool"})
	case *ssa.Select:
		fr.execSelect(st, i)
	case *ssa.Return:
		var vals []Val
		for _, r := range i.Results {
			vals = append(vals, fr.get(r))
		}
		fr.rets = append(fr.rets, retRec{st: st.clone(), vals: vals, pos: i.Pos()})
	case *ssa.Panic:
		if fr.fc == nil || !fr.fc.MayPanic {
			fr.safe(st, "false", i.Pos(), "panic", "explicit panic unreachable")
		}
	case *ssa.If, *ssa.Jump:
	default:
		u.unsup("instruction %T (%s)", in, in)
	}
}

func (fr *Frame) safe(st *State, cond string, pos token.Pos, kind, desc string) {
	u := fr.u
	if u.dry > 0 {
		return
	}
	top := fr
	for top.parent != nil {
		top = top.parent
	}
	if top.fc != nil && top.fc.NoSafe {
		return
	}
	if cond == "true" {
		return
	}
	p := u.cx.fset.Position(pos)
	id := fmt.Sprintf("%s/safe:%s", top.fnLabel(), kind)
	o := u.oblige(st, "safe", id, cond, pos, nil, desc)
	_ = p
	_ = o
}

func (fr *Frame) safeNonNil(st *State, p Val, pos token.Pos, desc string) {
	if p.Loc != nil {
		return
	}
	fr.safe(st, not(eq(p.T, "0")), pos, "nil", desc)
}

func (fr *Frame) execAlloc(st *State, i *ssa.Alloc) {
	u := fr.u
	t := i.Type().Underlying().(*types.Pointer).Elem()
	_, isArr := t.Underlying().(*types.Array)
	if !i.Heap && !isArr {
		// non-escaping local: its own one-cell heap
		name := fmt.Sprintf("L$%s%s", fr.prefix, i.Name())
		if fr.prefix == "" {
			name = "L$" + i.Name()
		}
		srt := u.enc.sortOf(t)
		u.regHeap(name, "(Array Int "+srt+")")
		loc := &Loc{Heap: name, Idx: []string{"0"}, Ty: t}
		fr.vals[i] = Val{Loc: loc, Ty: i.Type()}
		u.writeLoc(st, loc, u.enc.zero(t))
		return
	}
	r := u.newRef(st)
	u.zeroInit(st, r, t)
	fr.define(i, Val{T: r})
}

func (fr *Frame) execUnOp(st *State, i *ssa.UnOp) {
	u := fr.u
	x := fr.get(i.X)
	switch i.Op {
	case token.MUL:
		fr.safeNonNil(st, x, i.Pos(), "load through nil pointer")
		t := i.X.Type().Underlying().(*types.Pointer).Elem()
		v := u.load(st, x, t)
		// pointer-ish values loaded from heap are bounded by the allocation counter
		fr.define(i, v)
		u.loadedFacts(st, fr.vals[i])
	case token.SUB:
		fr.define(i, Val{T: app("-", x.T)})
	case token.NOT:
		fr.define(i, Val{T: not(x.T)})
	case token.XOR:
		f := u.enc.declFun("bitnot", []string{"Int"}, "Int")
		fr.define(i, Val{T: app(f, x.T)})
	case token.ARROW:
		u.abstracted = true
		u.note("channel receive in %s abstracted (havoc)", fr.fn)
		if i.CommaOk {
			fr.vals[i] = Val{Tup: []Val{fr.havocVal(i.X.Type().Underlying().(*types.Chan).Elem(), fr.name(i)), fr.havocVal(types.Typ[types.Bool], fr.name(i)+"ok")}}
		} else {
			fr.vals[i] = fr.havocVal(i.Type(), fr.name(i))
		}
		// ghost event: visible to contracts as called("chan.recv") / count("chan.recv")
		// (`after call chan.recv assume ...` sees the received value as res0, and ok as res1 for the comma-ok form)
		fr.afterCall(st, "chan.recv", fr.vals[i])
	default:
		u.unsup("unop %s", i.Op)
	}
}

// loadedFacts: a reference read from memory is an allocated one.
func (u *Unit) loadedFacts(st *State, v Val) {
	if v.Ty == nil || v.Loc != nil || v.T == "" {
		return
	}
	switch v.Ty.Underlying().(type) {
	case *types.Pointer, *types.Map, *types.Chan:
		u.assume(and(app("<=", "0", v.T), app("<=", v.T, u.heapCur(st, "$alloc"))))
		u.typeInvFacts(st, v)
	case *types.Slice:
		u.assume(app("<=", app("sl_base", v.T), u.heapCur(st, "$alloc")))
		u.typeFacts(v)
	case *types.Basic:
		u.typeFacts(v)
	}
}

func (fr *Frame) binop(st *State, i *ssa.BinOp) Val {
	u := fr.u
	x, y := fr.get(i.X), fr.get(i.Y)
	xt := i.X.Type()
	srt := u.enc.sortOf(xt)
	switch i.Op {
	case token.EQL, token.NEQ:
		var t string
		switch {
		case x.Loc != nil || y.Loc != nil:
			if x.Loc != nil && y.Loc != nil {
				u.unsup("comparison of sub-location pointers")
			}
			t = "false" // a field address is never nil / equal to a standalone ref
		case srt == "Slice":
			// only comparison with nil is legal
			if isNilConst(i.Y) {
				t = eq(app("sl_base", x.T), "0")
			} else if isNilConst(i.X) {
				t = eq(app("sl_base", y.T), "0")
			} else {
				u.unsup("slice comparison")
			}
		default:
			t = eq(x.T, y.T)
		}
		if i.Op == token.NEQ {
			t = not(t)
		}
		return Val{T: t, S: "Bool"}
	case token.LSS, token.LEQ, token.GTR, token.GEQ:
		op := map[token.Token]string{token.LSS: "<", token.LEQ: "<=", token.GTR: ">", token.GEQ: ">="}[i.Op]
		if srt == "Str" {
			f := u.strLt()
			switch i.Op {
			case token.LSS:
				return Val{T: app(f, x.T, y.T), S: "Bool"}
			case token.GTR:
				return Val{T: app(f, y.T, x.T), S: "Bool"}
			case token.LEQ:
				return Val{T: not(app(f, y.T, x.T)), S: "Bool"}
			default:
				return Val{T: not(app(f, x.T, y.T)), S: "Bool"}
			}
		}
		return Val{T: app(op, x.T, y.T), S: "Bool"}
	case token.ADD:
		if srt == "Str" {
			return Val{T: app("str_concat", x.T, y.T), S: "Str"}
		}
		return Val{T: app("+", x.T, y.T), S: srt}
	case token.SUB:
		return Val{T: app("-", x.T, y.T), S: srt}
	case token.MUL:
		// machine integers are mathematical integers in this model. One overflow is checked all the same: a 64-bit
		// signed value multiplied by a large constant (unit conversions such as seconds -> nanoseconds), where real
		// inputs (far-future timestamps) do leave the range. The product must fit.
		if srt == "Int" {
			if bt, ok := i.X.Type().Underlying().(*types.Basic); ok && (bt.Kind() == types.Int64 || bt.Kind() == types.Int) {
				for _, pair := range [][2]ssa.Value{{i.X, i.Y}, {i.Y, i.X}} {
					if c, ok := pair[0].(*ssa.Const); ok && c.Value != nil && c.Value.Kind() == constant.Int {
						if cv, exact := constant.Int64Val(c.Value); exact && (cv >= 1<<20 || cv <= -(1<<20)) {
							if _, isConst := pair[1].(*ssa.Const); !isConst {
								prod := app("*", x.T, y.T)
								fr.safe(st, and(app("<=", "(- 9223372036854775808)", prod), app("<=", prod, "9223372036854775807")), i.Pos(), "overflow", "64-bit multiplication by a large constant overflows")
							}
						}
					}
				}
			}
		}
		return Val{T: app("*", x.T, y.T), S: srt}
	case token.QUO:
		if srt == "Real" {
			return Val{T: app("/", x.T, y.T), S: srt}
		}
		fr.safe(st, not(eq(y.T, "0")), i.Pos(), "div", "division by zero")
		return Val{T: truncDiv(x.T, y.T), S: srt}
	case token.REM:
		fr.safe(st, not(eq(y.T, "0")), i.Pos(), "div", "modulo by zero")
		return Val{T: app("-", x.T, app("*", y.T, truncDiv(x.T, y.T))), S: srt}
	case token.AND, token.OR, token.XOR, token.SHL, token.SHR, token.AND_NOT:
		if srt == "Bool" {
			switch i.Op {
			case token.AND:
				return Val{T: and(x.T, y.T), S: "Bool"}
			case token.OR:
				return Val{T: or(x.T, y.T), S: "Bool"}
			}
		}
		f := u.enc.declFun("bitop_"+i.Op.String(), []string{"Int", "Int"}, "Int")
		u.note("bit operation %s treated as uninterpreted", i.Op)
		return Val{T: app(f, x.T, y.T), S: "Int"}
	}
	u.unsup("binop %s", i.Op)
	return Val{}
}

func truncDiv(x, y string) string {
	return fmt.Sprintf("(ite (>= %s 0) (div %s %s) (- (div (- %s) %s)))", x, x, y, x, y)
}

func isNilConst(v ssa.Value) bool {
	c, ok := v.(*ssa.Const)
	return ok && c.Value == nil
}

func (fr *Frame) execIndexAddr(st *State, i *ssa.IndexAddr) {
	u := fr.u
	x := fr.get(i.X)
	ix := fr.get(i.Index)
	switch xt := i.X.Type().Underlying().(type) {
	case *types.Slice:
		fr.safe(st, and(app("<=", "0", ix.T), app("<", ix.T, app("sl_len", x.T))), i.Pos(), "index", "slice index in range")
		h := u.arrHeap(xt.Elem())
		fr.vals[i] = Val{Loc: &Loc{Heap: h, Idx: []string{app("sl_base", x.T), app("ix", app("sl_off", x.T), ix.T)}, Ty: xt.Elem()}, Ty: i.Type()}
		if sl, ok := i.X.(*ssa.Slice); ok && sl.Low != nil && u.dry == 0 {
			// x = y[lo:...]: element k of x is element lo+k of y. A ground instance of the ix axiom (a tautology), stated so
			// that quantified facts about y's elements (patterns over ix(off_y, _)) apply to elements reached through x.
			if _, isSl := sl.X.Type().Underlying().(*types.Slice); isSl {
				y := fr.get(sl.X)
				lo := fr.get(sl.Low)
				if y.T != "" && lo.T != "" {
					u.assumeG(st, eq(app("ix", app("sl_off", x.T), ix.T), app("ix", app("sl_off", y.T), app("+", lo.T, ix.T))))
				}
			}
		}
	case *types.Pointer:
		arr := xt.Elem().Underlying().(*types.Array)
		fr.safeNonNil(st, x, i.Pos(), "index of nil array pointer")
		fr.safe(st, and(app("<=", "0", ix.T), app("<", ix.T, fmt.Sprint(arr.Len()))), i.Pos(), "index", "array index in range")
		if x.Loc != nil {
			np := append(append([]acc{}, x.Loc.Path...), acc{arrIx: ix.T})
			fr.vals[i] = Val{Loc: &Loc{Heap: x.Loc.Heap, Idx: x.Loc.Idx, Path: np, Ty: arr.Elem()}, Ty: i.Type()}
		} else {
			h := u.arrHeap(arr.Elem())
			fr.vals[i] = Val{Loc: &Loc{Heap: h, Idx: []string{x.T, ix.T}, Ty: arr.Elem()}, Ty: i.Type()}
		}
	default:
		u.unsup("IndexAddr on %s", i.X.Type())
	}
}

func (fr *Frame) execLookup(st *State, i *ssa.Lookup) {
	u := fr.u
	x := fr.get(i.X)
	k := fr.get(i.Index)
	switch xt := i.X.Type().Underlying().(type) {
	case *types.Map:
		dom, val, _, _ := u.mapHeaps(xt)
		d := sel(sel(u.heapCur(st, dom), x.T), k.T)
		in := and(not(eq(x.T, "0")), d)
		v := ite(in, sel(sel(u.heapCur(st, val), x.T), k.T), u.enc.zero(xt.Elem()))
		if i.CommaOk {
			vv := Val{T: v, S: u.enc.sortOf(xt.Elem()), Ty: xt.Elem()}
			if !isSimpleTerm(v) && u.dry == 0 {
				c := u.enc.freshConst(fr.name(i), vv.S)
				u.assume(eq(c, v))
				vv.T = c
			}
			u.loadedFacts(st, vv)
			fr.vals[i] = Val{Tup: []Val{vv, {T: in, S: "Bool", Ty: types.Typ[types.Bool]}}}
		} else {
			fr.define(i, Val{T: v})
			u.loadedFacts(st, fr.vals[i])
		}
	case *types.Basic:
		f := u.enc.declFun("str_at", []string{"Str", "Int"}, "Int")
		fr.safe(st, and(app("<=", "0", k.T), app("<", k.T, app("str_len", x.T))), i.Pos(), "index", "string index in range")
		fr.define(i, Val{T: app(f, x.T, k.T)})
	default:
		u.unsup("Lookup on %s", i.X.Type())
	}
}

func (fr *Frame) execMapUpdate(st *State, i *ssa.MapUpdate) {
	u := fr.u
	m := fr.get(i.Map)
	k := fr.get(i.Key)
	v := fr.get(i.Value)
	mt := i.Map.Type().Underlying().(*types.Map)
	fr.safe(st, not(eq(m.T, "0")), i.Pos(), "nilmap", "assignment to entry in nil map")
	u.mapStore(st, mt, m.T, k.T, v.T)
}

func (u *Unit) mapStore(st *State, mt *types.Map, m, k, v string) {
	dom, val, ks, _ := u.mapHeaps(mt)
	dh := u.heapCur(st, dom)
	oldDom := sel(dh, m)
	newDom := sto(oldDom, k, "true")
	nd := u.enc.freshConst("dom", "(Array "+ks+" Bool)")
	u.assume(eq(nd, newDom))
	u.assume(eq(u.card(ks, nd), app("+", u.card(ks, oldDom), ite(sel(oldDom, k), "0", "1"))))
	u.assume(app(">=", u.card(ks, oldDom), "0"))
	u.heapStoreAt(st, dom, m, nd)
	vh := u.heapCur(st, val)
	u.heapStoreAt(st, val, m, sto(sel(vh, m), k, v))
}

func (u *Unit) mapDelete(st *State, mt *types.Map, m, k string) {
	dom, _, ks, _ := u.mapHeaps(mt)
	dh := u.heapCur(st, dom)
	oldDom := sel(dh, m)
	nd := u.enc.freshConst("dom", "(Array "+ks+" Bool)")
	u.assume(eq(nd, sto(oldDom, k, "false")))
	u.assume(eq(u.card(ks, nd), app("-", u.card(ks, oldDom), ite(sel(oldDom, k), "1", "0"))))
	u.assume(app(">=", u.card(ks, nd), "0"))
	// deleting from a nil map is a no-op; dom[0] is empty anyway, so storing false keeps it empty
	u.heapStoreAt(st, dom, m, nd)
}

func (fr *Frame) execSlice(st *State, i *ssa.Slice) {
	u := fr.u
	x := fr.get(i.X)
	var lo, hi, mx string
	if i.Low != nil {
		lo = fr.get(i.Low).T
	} else {
		lo = "0"
	}
	switch xt := i.X.Type().Underlying().(type) {
	case *types.Slice:
		if i.High != nil {
			hi = fr.get(i.High).T
		} else {
			hi = app("sl_len", x.T)
		}
		cp := app("sl_cap", x.T)
		if i.Max != nil {
			mx = fr.get(i.Max).T
			fr.safe(st, and(app("<=", "0", lo), app("<=", lo, hi), app("<=", hi, mx), app("<=", mx, cp)), i.Pos(), "slice", "slice bounds in range (3-index)")
		} else {
			mx = cp
			fr.safe(st, and(app("<=", "0", lo), app("<=", lo, hi), app("<=", hi, cp)), i.Pos(), "slice", "slice bounds in range")
		}
		fr.define(i, Val{T: app("mk_slice", app("sl_base", x.T), app("+", app("sl_off", x.T), lo), app("-", hi, lo), app("-", mx, lo))})
	case *types.Basic: // string
		if i.High != nil {
			hi = fr.get(i.High).T
		} else {
			hi = app("str_len", x.T)
		}
		fr.safe(st, and(app("<=", "0", lo), app("<=", lo, hi), app("<=", hi, app("str_len", x.T))), i.Pos(), "slice", "string slice bounds in range")
		f := u.enc.declFun("str_sub", []string{"Str", "Int", "Int"}, "Str")
		r := app(f, x.T, lo, hi)
		u.assumeG(st, eq(app("str_len", r), app("-", hi, lo)))
		u.assumeG(st, implies(and(eq(lo, "0"), eq(hi, app("str_len", x.T))), eq(r, x.T)))
		fr.define(i, Val{T: r})
	case *types.Pointer:
		arr := xt.Elem().Underlying().(*types.Array)
		n := fmt.Sprint(arr.Len())
		if i.High != nil {
			hi = fr.get(i.High).T
		} else {
			hi = n
		}
		if x.Loc != nil {
			u.unsup("slicing a sub-located array in %s at %s", fr.fn, u.cx.fset.Position(i.Pos()))
		}
		fr.safe(st, and(app("<=", "0", lo), app("<=", lo, hi), app("<=", hi, n)), i.Pos(), "slice", "array slice bounds in range")
		fr.define(i, Val{T: app("mk_slice", x.T, lo, app("-", hi, lo), app("-", n, lo))})
	default:
		u.unsup("Slice on %s", i.X.Type())
	}
}

func (fr *Frame) execConvert(st *State, i *ssa.Convert) {
	u := fr.u
	x := fr.get(i.X)
	from, to := u.enc.sortOf(i.X.Type()), u.enc.sortOf(i.Type())
	switch {
	case from == to:
		tb, ok := i.Type().Underlying().(*types.Basic)
		if ok && from == "Int" && tb.Info()&types.IsUnsigned != 0 {
			fb, ok2 := i.X.Type().Underlying().(*types.Basic)
			if ok2 && fb.Info()&types.IsUnsigned == 0 {
				u.note("signed->unsigned conversion treated as identity (mathematical integers)")
			}
		}
		fr.define(i, Val{T: x.T, S: to})
	case from == "Int" && to == "Real":
		fr.define(i, Val{T: app("to_real", x.T)})
	case from == "Real" && to == "Int":
		// truncation toward zero
		fr.define(i, Val{T: fmt.Sprintf("(ite (>= %s 0.0) (to_int %s) (- (to_int (- %s))))", x.T, x.T, x.T)})
	case from == "Str" && to == "Slice":
		// []byte(s) / []rune(s): fresh slice; bytes determined by the string (str_of_bytes is its inverse view)
		r := u.newRef(st)
		el := i.Type().Underlying().(*types.Slice).Elem()
		isRune := false
		if b, ok := el.Underlying().(*types.Basic); ok && b.Kind() == types.Int32 {
			isRune = true
		}
		var ln string
		if isRune {
			f := u.enc.declFun("str_nrunes", []string{"Str"}, "Int")
			ln = app(f, x.T)
			u.assume(and(app("<=", "0", ln), app("<=", ln, app("str_len", x.T)), implies(app(">", app("str_len", x.T), "0"), app(">", ln, "0")),
				app("<=", app("str_len", x.T), app("*", "4", ln))))
			u.note("[]rune(string): contents uninterpreted, capacity arbitrary >= length")
		} else {
			ln = app("str_len", x.T)
		}
		cp := u.enc.freshConst("cap", "Int")
		u.assume(app(">=", cp, ln))
		h := u.arrHeap(el)
		row := u.enc.freshConst("bytesrow", "(Array Int Int)")
		u.heapStoreAt(st, h, r, row)
		if !isRune {
			f := u.strOfBytesFn()
			u.assume(eq(app(f, row, "0", ln), x.T))
		}
		fr.define(i, Val{T: app("mk_slice", r, "0", ln, cp)})
	case from == "Slice" && to == "Str":
		el := i.X.Type().Underlying().(*types.Slice).Elem()
		isRune := false
		if b, ok := el.Underlying().(*types.Basic); ok && b.Kind() == types.Int32 {
			isRune = true
		}
		if isRune {
			// string([]rune): a deterministic function of the rune contents; its byte length is between n and 4n
			h := u.arrHeap(el)
			f := u.enc.declFun("str_of_runes", []string{"(Array Int Int)", "Int", "Int"}, "Str")
			nr := u.enc.declFun("str_nrunes", []string{"Str"}, "Int")
			s := app(f, sel(u.heapCur(st, h), app("sl_base", x.T)), app("sl_off", x.T), app("sl_len", x.T))
			u.assume(eq(app(nr, s), app("sl_len", x.T)))
			u.assume(and(app("<=", app("sl_len", x.T), app("str_len", s)), app("<=", app("str_len", s), app("*", "4", app("sl_len", x.T)))))
			fr.define(i, Val{T: s})
			u.note("string([]rune): uninterpreted function of the rune contents with n <= byte length <= 4n")
		} else {
			fr.define(i, Val{T: u.strOfBytes(st, x.T, el)})
		}
	case from == "Int" && to == "Str":
		f := u.enc.declFun("str_of_rune", []string{"Int"}, "Str")
		fr.define(i, Val{T: app(f, x.T)})
	default:
		u.unsup("convert %s -> %s", i.X.Type(), i.Type())
	}
}

func (fr *Frame) boxFns(t types.Type) (box, unbox string) {
	u := fr.u
	s := u.enc.sortOf(t)
	key := s
	if s == "Int" {
		key = "Int" // all Int-sorted values share a box; type tag distinguishes
	}
	box = u.enc.declFun("box$"+key, []string{s}, "Int")
	unbox = u.enc.declFun("unbox$"+key, []string{"Int"}, s)
	return
}

func (fr *Frame) box(st *State, x Val, t types.Type) Val {
	u := fr.u
	if x.Loc != nil {
		b := u.enc.freshConst("boxloc", "Int")
		u.assume(and(not(eq(b, "0")), eq(app("typeof", b), u.enc.typeTag(t))))
		return Val{T: b, S: "Int", BoxLoc: x.Loc, BoxTy: t}
	}
	if _, ok := t.Underlying().(*types.Interface); ok {
		return x
	}
	s := u.enc.sortOf(t)
	if s == "Int" {
		// pointers and ints: interface value is a tagged pair; we use an injective uninterpreted pairing
		f := u.enc.declFun("box$Int", []string{"Int", "Int"}, "Int")
		g := u.enc.declFun("unbox$Int", []string{"Int"}, "Int")
		tag := u.enc.typeTag(t)
		b := app(f, tag, x.T)
		u.assume(and(eq(app(g, b), x.T), eq(app("typeof", b), tag), not(eq(b, "0"))))
		return Val{T: b, S: "Int", Fn: x.Fn, Bind: x.Bind}
	}
	f := u.enc.declFun("box$"+s, []string{"Int", s}, "Int")
	g := u.enc.declFun("unbox$"+s, []string{"Int"}, s)
	tag := u.enc.typeTag(t)
	b := app(f, tag, x.T)
	u.assume(and(eq(app(g, b), x.T), eq(app("typeof", b), tag), not(eq(b, "0"))))
	return Val{T: b, S: "Int"}
}

func (fr *Frame) execTypeAssert(st *State, i *ssa.TypeAssert) {
	u := fr.u
	x := fr.get(i.X)
	at := i.AssertedType
	var ok, val string
	if _, isIface := at.Underlying().(*types.Interface); isIface {
		okc := u.enc.freshConst(fr.name(i)+"ok", "Bool")
		u.assume(implies(okc, not(eq(x.T, "0"))))
		ok = okc
		val = x.T
	} else {
		tag := u.enc.typeTag(at)
		ok = and(not(eq(x.T, "0")), eq(app("typeof", x.T), tag))
		s := u.enc.sortOf(at)
		g := u.enc.declFun("unbox$"+s, []string{"Int"}, s)
		val = app(g, x.T)
	}
	s := u.enc.sortOf(at)
	if i.CommaOk {
		vv := Val{T: ite(ok, val, u.enc.zero(at)), S: s, Ty: at}
		if u.dry == 0 {
			c := u.enc.freshConst(fr.name(i), s)
			u.assume(eq(c, vv.T))
			vv.T = c
		}
		u.loadedFacts(st, vv)
		fr.vals[i] = Val{Tup: []Val{vv, {T: ok, S: "Bool", Ty: types.Typ[types.Bool]}}}
		return
	}
	fr.safe(st, ok, i.Pos(), "typeassert", "type assertion succeeds")
	fr.define(i, Val{T: val, S: s})
	u.loadedFacts(st, fr.vals[i])
}

func (fr *Frame) execRange(st *State, i *ssa.Range) {
	u := fr.u
	x := fr.get(i.X)
	switch xt := i.X.Type().Underlying().(type) {
	case *types.Map:
		dom, _, ks, _ := u.mapHeaps(xt)
		g := "$visited:" + fr.name(i)
		u.regHeap(g, "(Array "+ks+" Bool)")
		u.heapSet(st, g, u.emptySet(ks))
		d0 := u.enc.freshConst("dom0", "(Array "+ks+" Bool)")
		u.assume(eq(d0, sel(u.heapCur(st, dom), x.T)))
		fr.vals[i] = Val{Iter: &iterInfo{Map: x, Ghost: g, Dom0: d0, KeySort: ks}, Ty: i.Type()}
	case *types.Basic:
		g := "$stridx:" + fr.name(i)
		u.regHeap(g, "Int")
		u.heapSet(st, g, "0")
		fr.vals[i] = Val{Iter: &iterInfo{Map: x, Ghost: g, IsStr: true}, Ty: i.Type()}
	default:
		u.unsup("range over %s", i.X.Type())
	}
}

func (fr *Frame) execNext(st *State, i *ssa.Next) {
	u := fr.u
	it := fr.get(i.Iter).Iter
	if it == nil {
		u.unsup("next on unknown iterator")
	}
	tup := i.Type().(*types.Tuple)
	if it.IsStr {
		// for i, r := range s : index advances by 1..4 bytes
		idx := u.heapCur(st, it.Ghost)
		ok := app("<", idx, app("str_len", it.Map.T))
		w := u.enc.freshConst("runew", "Int")
		u.assume(and(app("<=", "1", w), app("<=", w, "4")))
		u.assumeG(st, implies(ok, app("<=", app("+", idx, w), app("str_len", it.Map.T))))
		r := u.enc.freshConst("rune", "Int")
		u.heapSet(st, it.Ghost, ite(ok, app("+", idx, w), idx))
		fr.vals[i] = Val{Tup: []Val{{T: ok, S: "Bool", Ty: types.Typ[types.Bool]}, {T: idx, S: "Int", Ty: types.Typ[types.Int]}, {T: r, S: "Int", Ty: types.Typ[types.Rune]}}}
		return
	}
	mt := it.Map.Ty.Underlying().(*types.Map)
	dom, val, ks, _ := u.mapHeaps(mt)
	vis := u.heapCur(st, it.Ghost)
	curDom := sel(u.heapCur(st, dom), it.Map.T)
	k := u.enc.freshConst(fr.name(i)+"k", ks)
	ok := u.enc.freshConst(fr.name(i)+"ok", "Bool")
	u.assumeG(st, implies(ok, and(sel(curDom, k), not(sel(vis, k)))))
	// exhausted: every key that was present at range start and still is has been visited
	kk := "kq!" + fmt.Sprint(u.enc.fresh)
	u.enc.fresh++
	u.assumeG(st, implies(not(ok), fmt.Sprintf("(forall ((%s %s)) (! (=> (and (select %s %s) (select %s %s)) (select %s %s)) :pattern ((select %s %s)) :pattern ((select %s %s))))",
		kk, ks, it.Dom0, kk, curDom, kk, vis, kk, curDom, kk, vis, kk)))
	// extensionality instance (always true): pointwise equal sets are equal - lets cardinalities be compared after the loop
	ke := "ke!" + fmt.Sprint(u.enc.fresh)
	u.enc.fresh++
	u.assumeG(st, implies(not(ok), implies(fmt.Sprintf("(forall ((%s %s)) (= (select %s %s) (select %s %s)))", ke, ks, vis, ke, curDom, ke), eq(vis, curDom))))
	u.heapSet(st, it.Ghost, ite(ok, sto(vis, k, "true"), vis))
	kv := Val{T: k, S: ks, Ty: mt.Key()} // (the tuple's component types are invalid for blank range variables)
	vt := mt.Elem()
	_ = tup
	vv := Val{T: sel(sel(u.heapCur(st, val), it.Map.T), k), S: u.enc.sortOf(vt), Ty: vt}
	if u.dry == 0 {
		c := u.enc.freshConst(fr.name(i)+"v", vv.S)
		u.assume(eq(c, vv.T))
		vv.T = c
	}
	u.loadedFacts(st, vv)
	u.typeFacts(kv)
	fr.vals[i] = Val{Tup: []Val{{T: ok, S: "Bool", Ty: types.Typ[types.Bool]}, kv, vv}}
}

func (fr *Frame) execSelect(st *State, i *ssa.Select) {
	u := fr.u
	u.abstracted = true
	u.note("select in %s abstracted: nondeterministic choice, received values havoced", fr.fn)
	n := len(i.States)
	idx := u.enc.freshConst(fr.name(i)+"idx", "Int")
	lo := "0"
	if !i.Blocking {
		lo = "(- 1)"
	}
	u.assume(and(app("<=", lo, idx), app("<", idx, fmt.Sprint(n))))
	vals := []Val{{T: idx, S: "Int", Ty: types.Typ[types.Int]}, fr.havocVal(types.Typ[types.Bool], fr.name(i)+"recvok")}
	tup := i.Type().(*types.Tuple)
	for k := 2; k < tup.Len(); k++ {
		vals = append(vals, fr.havocVal(tup.At(k).Type(), fmt.Sprintf("%srecv%d", fr.name(i), k)))
	}
	fr.vals[i] = Val{Tup: vals}
	// the value offered by a send case is visible to `at call chan.send` clauses as arg0 (it is evaluated whether or
	// not the case is taken); arg1 is the channel
	for _, sc := range i.States {
		if sc.Dir == types.SendOnly && sc.Send != nil {
			fr.atCall(st, "chan.send", []Val{fr.get(sc.Send), fr.get(sc.Chan)}, i.Pos())
		}
	}
	// ghost: the chosen case is visible to contracts as ret("select")
	fr.afterCall(st, "select", vals[0])
	// ghost: the value a receive case would deliver is visible as ret("recvcase.value<k>") (k = index of the case in
	// source order); it is what the code sees when ret("select") == k
	fr.afterCall(st, "recvcase.ok", vals[1])
	{
		j := 2
		for k, sc := range i.States {
			if sc.Dir == types.RecvOnly {
				if j < len(vals) {
					fr.afterCall(st, fmt.Sprintf("recvcase.value%d", k), vals[j])
				}
				j++
			}
		}
	}
	// ghost: whether a send case was the one taken: counttrue0("sendcase.taken") counts the sends that happened
	for k, sc := range i.States {
		if sc.Dir == types.SendOnly && sc.Send != nil {
			fr.afterCall(st, "sendcase.taken", Val{T: eq(idx, fmt.Sprint(k)), S: "Bool", Ty: types.Typ[types.Bool]})
		}
	}
}

func (fr *Frame) execDefer(st *State, i *ssa.Defer) {
	u := fr.u
	n := len(fr.defers)
	flag := fmt.Sprintf("$defer:%s%d", fr.prefix, n)
	u.regHeap(flag, "Bool")
	var args []Val
	for _, a := range i.Call.Args {
		args = append(args, fr.get(a))
	}
	var fnv Val
	if !i.Call.IsInvoke() {
		fnv = fr.get(i.Call.Value)
	} else {
		fnv = fr.get(i.Call.Value)
	}
	if u.dry == 0 {
		for _, d := range fr.defers {
			if d.instr == i {
				u.unsup("defer executed more than once (in loop)")
			}
		}
	}
	fr.defers = append(fr.defers, &deferRec{flag: flag, instr: i, args: args, fnv: fnv})
	u.heapSet(st, flag, "true")
}

func (fr *Frame) runDefers(st *State) {
	u := fr.u
	for k := len(fr.defers) - 1; k >= 0; k-- {
		d := fr.defers[k]
		flag := "false"
		if t, ok := st.heaps[d.flag]; ok {
			flag = t
		}
		if flag == "false" {
			continue
		}
		// run under guard && flag, then merge back
		sub := st.clone()
		sub.guard = and(st.guard, flag)
		fr.callWith(sub, d.instr, &d.instr.Call, d.fnv, d.args)
		if flag == "true" {
			*st = *sub
			st.guard = sub.guard
			continue
		}
		skip := st.clone()
		skip.guard = and(st.guard, not(flag))
		g := st.guard
		m := u.mergeStates([]*State{sub, skip})
		*st = *m
		st.guard = g
	}
}

// strOfBytes: the string value of a byte slice: an uninterpreted function of the row contents, offset and length.
func (u *Unit) strOfBytes(st *State, sl string, el types.Type) string {
	h := u.arrHeap(el)
	f := u.strOfBytesFn()
	t := app(f, sel(u.heapCur(st, h), app("sl_base", sl)), app("sl_off", sl), app("sl_len", sl))
	return t
}

func (u *Unit) strOfBytesFn() string {
	if !u.enc.declared["str_of_bytes"] {
		u.enc.declFun("str_of_bytes", []string{"(Array Int Int)", "Int", "Int"}, "Str")
		u.enc.axioms = append(u.enc.axioms, "(forall ((r (Array Int Int)) (o Int) (n Int)) (! (=> (>= n 0) (= (str_len (str_of_bytes r o n)) n)) :pattern ((str_of_bytes r o n))))")
	}
	return "str_of_bytes"
}

func (u *Unit) chanCapFn() string {
	if !u.enc.declared["chan_cap"] {
		u.enc.declFun("chan_cap", []string{"Int"}, "Int")
	}
	return "chan_cap"
}

type partClause struct {
	c      *Clause
	suffix string
}

// splitClause: one proof obligation per top-level conjunct (smaller queries, sharper diagnostics).
func (fr *Frame) splitClause(c *Clause) []partClause {
	parts := splitConjPkg(c.E, fr.u.cx.cs, fnPkgPath(fr.fn))
	if len(parts) <= 1 {
		return []partClause{{c, ""}}
	}
	var out []partClause
	for j, p := range parts {
		nc := *c
		nc.E = p
		nc.Src = p.String()
		out = append(out, partClause{&nc, fmt.Sprintf(".c%d", j+1)})
	}
	return out
}

// innermostLoopHeader: the header of the innermost loop whose body contains b (nil if none).
func (fr *Frame) innermostLoopHeader(b *ssa.BasicBlock) *ssa.BasicBlock {
	if b == nil {
		return nil
	}
	var best *ssa.BasicBlock
	bestSize := 0
	for _, h := range fr.loops {
		body := loopBody(h)
		if body[b] && (best == nil || len(body) < bestSize) {
			best, bestSize = h, len(body)
		}
	}
	return best
}

// goCalleeName: the name of the function a go statement spawns (closure or static function), "" when dynamic
func goCalleeName(i *ssa.Go) string {
	switch v := i.Call.Value.(type) {
	case *ssa.MakeClosure:
		if f, ok := v.Fn.(*ssa.Function); ok {
			return f.Name()
		}
	case *ssa.Function:
		return v.Name()
	}
	return ""
}

// typeInvFacts: a loaded non-nil pointer to a named type with a declared `typeinv` is assumed to satisfy it (in the
// state of the load). Not applied while another type invariant is being expanded (no recursion).
func (u *Unit) typeInvFacts(st *State, v Val) {
	if u.cx.cs.TypeInvs == nil || u.inTypeInv {
		return
	}
	pt, ok := types.Unalias(v.Ty).Underlying().(*types.Pointer)
	if !ok {
		return
	}
	n, ok := types.Unalias(pt.Elem()).(*types.Named)
	if !ok || n.Obj().Pkg() == nil {
		return
	}
	ti, ok := u.cx.cs.TypeInvs[n.Obj().Pkg().Path()+"."+n.Obj().Name()]
	if !ok {
		return
	}
	u.inTypeInv = true
	defer func() { u.inTypeInv = false }()
	env := &Env{u: u, vars: map[string]Val{"self": v}, cur: st, old: st, pkg: n.Obj().Pkg()}
	t := env.trBool(ti.E)
	u.assumeG(st, implies(not(eq(v.T, "0")), t))
	u.note("type invariant of %s.%s assumed of loaded values: %s", ti.PkgPath, ti.Name, ti.Src)
}

// snapshotInterior: the address of a struct-typed field (&x.f) is stored in the heap. Interior pointers have no
// first-class value in this model; the stored pointer is represented by a new reference whose fields hold the CURRENT
// values of x.f (a snapshot, not an alias: later writes to x.f are not seen through it, and writes through it do not
// reach x.f). Listed as an assumption; sound for read-only uses of data that is not modified afterwards (route options).
func (u *Unit) snapshotInterior(st *State, v Val) Val {
	pt, ok := v.Ty.Underlying().(*types.Pointer)
	if !ok {
		u.unsup("storing an interior pointer to a non-struct (%s)", v.Ty)
	}
	if !isStructT(pt.Elem()) {
		// &x.f with f a scalar, string, map, slice or pointer field: a new cell holding the field's current value
		if _, isArr := pt.Elem().Underlying().(*types.Array); isArr {
			u.unsup("storing an interior pointer to an array (%s)", v.Ty)
		}
		cur := u.load(st, v, pt.Elem())
		r := u.newRef(st)
		u.heapStoreAt(st, u.cellHeap(pt.Elem()), r, cur.T)
		u.note("address of a struct field stored in the heap: represented by a snapshot copy of the field's current value (not an alias)")
		return Val{T: r, S: "Int", Ty: v.Ty}
	}
	stT := canon(pt.Elem())
	sT := stT.Underlying().(*types.Struct)
	cur := u.load(st, v, stT)
	r := u.newRef(st)
	for i := 0; i < sT.NumFields(); i++ {
		h, _ := u.fieldHeap(stT, i)
		u.heapStoreAt(st, h, r, app(u.enc.accessor(stT, i), cur.T))
	}
	u.note("address of a struct field stored in the heap: represented by a snapshot copy of the field's current value (not an alias)")
	return Val{T: r, S: "Int", Ty: v.Ty}
}

// strLt: the lexicographic order on strings as an uninterpreted relation with the axioms of a strict total order
// (irreflexive, asymmetric, transitive, total); nothing else about it (no link to contents or concatenation) is known.
func (u *Unit) strLt() string {
	f := u.enc.declFun("str_lt", []string{"Str", "Str"}, "Bool")
	if !u.strLtAx {
		u.strLtAx = true
		u.assume("(forall ((a!s Str) (b!s Str)) (! (=> (str_lt a!s b!s) (not (str_lt b!s a!s))) :pattern ((str_lt a!s b!s))))")
		u.assume("(forall ((a!s Str) (b!s Str)) (! (or (str_lt a!s b!s) (str_lt b!s a!s) (= a!s b!s)) :pattern ((str_lt a!s b!s))))")
		u.assume("(forall ((a!s Str) (b!s Str) (c!s Str)) (! (=> (and (str_lt a!s b!s) (str_lt b!s c!s)) (str_lt a!s c!s)) :pattern ((str_lt a!s b!s) (str_lt b!s c!s))))")
		u.note("string ordering (<, <=, >, >=) is an uninterpreted strict total order (package strings/runtime trusted)")
	}
	return f
}
