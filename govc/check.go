package main

// govc check --prop Cxx --tier quick|thorough : the registered property check.

import (
	"regexp"
	"reflect"
	"encoding/json"
	"flag"
	"fmt"
	"go/types"
	"os"
	"path/filepath"
	"sort"
	"strconv"
	"strings"
	"sync"
	"time"

	"golang.org/x/tools/go/ssa"
)

const verifRoot = "/verif"

type knownFinding struct {
	Prop   string
	Clause string
	Desc   string
}

func loadKnownFindings() []knownFinding {
	b, err := os.ReadFile(filepath.Join(verifRoot, "known_findings.txt"))
	if err != nil {
		return nil
	}
	var out []knownFinding
	for _, ln := range strings.Split(string(b), "\n") {
		ln = strings.TrimSpace(ln)
		if !strings.HasPrefix(ln, "finding:") {
			continue
		}
		rest := strings.TrimSpace(strings.TrimPrefix(ln, "finding:"))
		kf := knownFinding{}
		parts := strings.SplitN(rest, "::", 2)
		if len(parts) == 2 {
			kf.Desc = strings.TrimSpace(parts[1])
		}
		for _, f := range strings.Fields(parts[0]) {
			if strings.HasPrefix(f, "property=") {
				kf.Prop = strings.TrimPrefix(f, "property=")
			}
			if strings.HasPrefix(f, "clause=") {
				kf.Clause = strings.TrimPrefix(f, "clause=")
			}
		}
		out = append(out, kf)
	}
	return out
}

func loadClaims(prop string) []string {
	b, err := os.ReadFile(filepath.Join(verifRoot, "obligations", prop+".claims"))
	if err != nil {
		return nil
	}
	var out []string
	for _, ln := range strings.Split(string(b), "\n") {
		ln = strings.TrimSpace(ln)
		if ln == "" || strings.HasPrefix(ln, "#") {
			continue
		}
		out = append(out, ln)
	}
	return out
}

func hasProp(ps []string, p string) bool {
	for _, x := range ps {
		if x == p {
			return true
		}
	}
	return false
}

type boundedSpec struct {
	Name        string            `json:"name"`
	TestFile    string            `json:"test_file"` // relative to /verif
	Pkg         string            `json:"pkg"`       // package directory in /repo
	Run         string            `json:"run"`
	EnvQuick    map[string]string `json:"env_quick"`
	EnvThorough map[string]string `json:"env_thorough"`
	Bound       string            `json:"bound"`
}

type propMeta struct {
	Assumptions []string      `json:"assumptions"`
	Packages    []string      `json:"packages"`
	Bounded     []boundedSpec `json:"bounded"`
}

func loadPropMeta(prop string) propMeta {
	var m propMeta
	b, err := os.ReadFile(filepath.Join(verifRoot, "props", prop+".json"))
	if err == nil {
		json.Unmarshal(b, &m)
	}
	return m
}

type violation struct {
	Obl     string
	Reason  string
	Replay  string
	NoInput bool
	Unit    string // function under contract the obligation belongs to
}

func cmdCheck(args []string) int {
	fs := flag.NewFlagSet("check", flag.ExitOnError)
	prop := fs.String("prop", "", "property id")
	tier := fs.String("tier", "quick", "quick|thorough")
	repo := fs.String("repo", "/repo", "")
	ov := fs.String("overlay", "", "")
	writeClaims := fs.Bool("write-claims", false, "write obligations/<prop>.claims from this run")
	noEvidence := fs.Bool("no-evidence", false, "")
	verbose := fs.Bool("v", false, "")
	fs.Parse(args)
	if t := os.Getenv("VERIF_TIER"); t == "quick" || t == "thorough" {
		*tier = t
	}
	seed := 0
	if s := os.Getenv("VERIF_SEED"); s != "" {
		if n, err := strconv.Atoi(s); err == nil {
			seed = n
		}
	}
	if *prop == "" {
		fmt.Fprintln(os.Stderr, "--prop required")
		return 2
	}
	t0 := time.Now()
	// contracts first (to know which packages to load)
	cs, err := LoadContracts(*repo, filepath.Join(verifRoot, "contracts"), modPath)
	if err != nil {
		fmt.Fprintln(os.Stderr, "contracts:", err)
		return 3
	}
	pkgSet := map[string]bool{}
	var fcs []*FuncContract
	for _, k := range sortedKeys(cs.Funcs) {
		fc := cs.Funcs[k]
		if hasProp(fc.Props, *prop) {
			fcs = append(fcs, fc)
			pkgSet[fc.PkgPath] = true
		}
	}
	var lemmas []*Lemma
	for _, l := range cs.Lemmas {
		if !l.Axiom && hasProp(l.Props, *prop) {
			lemmas = append(lemmas, l)
			pkgSet[l.PkgPath] = true
		}
	}
	meta := loadPropMeta(*prop)
	for _, p := range meta.Packages {
		pkgSet[p] = true
	}
	if len(fcs)+len(lemmas) == 0 {
		fmt.Printf("no contracts for property %s\n", *prop)
		return 2
	}
	var patterns []string
	for _, p := range sortedKeys(pkgSet) {
		if strings.HasPrefix(p, modPath) {
			patterns = append(patterns, "."+strings.TrimPrefix(p, modPath))
		} else {
			patterns = append(patterns, p)
		}
	}
	tLoad := time.Now()
	extraOverlay = parseOverlay(*ov)
	cx, err := LoadProgram(*repo, patterns, extraOverlay)
	loadS := time.Since(tLoad).Seconds()
	// calibrate the budget of the loop-frame candidates on the machine's speed: loading takes about 2 s on the
	// development machine (budget 3 s); a machine six times slower gets about 25 s
	if b := int(1.5*loadS) + 1; b > houdiniBudget {
		houdiniBudget = b
		if houdiniBudget > 30 {
			houdiniBudget = 30
		}
	}
	var viols []violation
	replayDir := filepath.Join(verifRoot, "replays", *prop)
	os.MkdirAll(replayDir, 0o755)
	if err != nil {
		// the tree does not build with the verif tag: nothing can be proved about it
		fmt.Fprintln(os.Stderr, "load:", err)
		rp := filepath.Join(replayDir, "load-error.json")
		writeJSON(rp, map[string]any{"obligation": "load", "reason": "repository does not type-check under tag verif", "output": err.Error()})
		fmt.Printf("VIOLATION property=%s replay=%s no-failing-input-found\n", *prop, rp)
		return 1
	}
	cx.indexFunctions()
	cx.cs = cs
	timeout := 10
	if *tier == "thorough" {
		timeout = 60
	}
	var units []*UnitResult
	var funcNames []string
	loadHoudiniHints(filepath.Join(verifRoot, "obligations", "houdini_hints.json"))
	tBuild := time.Now()
	type buildJob struct {
		idx int
		fn  *ssa.Function
		fc  *FuncContract
		l   *Lemma
	}
	var jobs []buildJob
	for _, fc := range fcs {
		fn := cx.lookupFn(fc.PkgPath, fc.Name)
		if fn == nil {
			if fc.Pure && strings.HasPrefix(fc.Name, "(") && !strings.HasPrefix(fc.Name, "(*") && cx.isInterface(fc.PkgPath, fc.Name) {
				continue // interface method contracts have no body
			}
			units = append(units, &UnitResult{Name: fc.PkgPath + "." + fc.Name, Err: "contract-unbound: function " + fc.Name + " not found in " + fc.PkgPath})
			continue
		}
		if fc.Trusted || len(fn.Blocks) == 0 {
			continue
		}
		units = append(units, &UnitResult{Name: fn.String()})
		jobs = append(jobs, buildJob{idx: len(units) - 1, fn: fn, fc: fc})
		funcNames = append(funcNames, fn.String())
	}
	for _, l := range lemmas {
		units = append(units, &UnitResult{Name: "lemma " + l.Name})
		jobs = append(jobs, buildJob{idx: len(units) - 1, l: l})
	}
	{
		var wg sync.WaitGroup
		ch := make(chan buildJob)
		for w := 0; w < 8; w++ {
			wg.Add(1)
			go func() {
				defer wg.Done()
				for j := range ch {
					var u *Unit
					var err error
					if j.l != nil {
						u, err = cx.buildLemmaUnit(j.l)
					} else {
						u, err = cx.buildFuncUnit(j.fn, j.fc)
					}
					units[j.idx].Unit = u
					if err != nil {
						units[j.idx].Err = err.Error()
					}
				}
			}()
		}
		for _, j := range jobs {
			ch <- j
		}
		close(ch)
		wg.Wait()
	}
	buildS := time.Since(tBuild).Seconds()
	outDir := filepath.Join(verifRoot, "out", *prop)
	os.RemoveAll(outDir)
	os.MkdirAll(outDir, 0o755)
	solveAll(units, outDir, timeout, seed, 16)
	for _, sd := range cs.Structurals {
		if hasProp(sd.Props, *prop) {
			units = append(units, cx.structuralUnit(sd))
		}
	}

	known := loadKnownFindings()
	claims := loadClaims(*prop)
	produced := map[string]*OblResult{}
	nObl, nDis := 0, 0
	byKind := map[string]int{}
	bySolver := map[string]int{}
	solverS := 0.0
	var samples []any
	var findingsOut []string
	notes := map[string]bool{}
	abstracted := []string{}
	trustedCalls := map[string]bool{}
	noEffect := map[string]bool{}
	inlined := map[string]bool{}
	havocCalls := map[string]bool{}
	covers := 0
	var slow []*OblResult
	for _, ur := range units {
		if ur.Err != "" {
			rp := filepath.Join(replayDir, sanitizeFile(ur.Name)+".engine.json")
			writeJSON(rp, map[string]any{"obligation": ur.Name, "reason": "the contract no longer binds to the code or the function left the verified subset; the proof does not cover the code that runs", "output": ur.Err})
			viols = append(viols, violation{Obl: ur.Name, Reason: ur.Err, Replay: rp, NoInput: true})
			continue
		}
		u := ur.Unit
		for k := range u.notes {
			notes[k] = true
		}
		if u.abstracted {
			abstracted = append(abstracted, ur.Name)
		}
		for k := range u.callsTrusted {
			trustedCalls[k] = true
		}
		for k := range u.callsNoEffect {
			noEffect[k] = true
		}
		for k := range u.callsInlined {
			inlined[k] = true
		}
		for k := range u.callsHavoc {
			havocCalls[k] = true
		}
		for _, r := range ur.Results {
			o := r.Obl
			produced[o.ID] = r
			solverS += r.Seconds
			isFinding := strings.HasSuffix(o.ID, "@finding")
			ok := r.OK()
			if isFinding {
				if !ok {
					// expected failure inside the recorded region
					listed := false
					for _, kf := range known {
						if kf.Prop == *prop && kf.Clause == strings.TrimSuffix(o.ID, "@finding") {
							listed = true
							msg := fmt.Sprintf("KNOWN-FINDING: property=%s %s [%s region: %s]", *prop, kf.Desc, kf.Clause, o.Clause.RegionSrc)
							findingsOut = append(findingsOut, msg)
						}
					}
					if !listed {
						rp := writeReplay(cx, replayDir, *prop, ur, r)
						viols = append(viols, violation{Obl: o.ID, Reason: "clause fails inside a finding region that known_findings.txt does not list", Replay: rp, NoInput: true})
					}
				}
				continue
			}
			if o.Cover {
				covers++
			}
			nObl++
			byKind[o.Kind]++
			if ok {
				nDis++
				bySolver[r.Solver]++
				if !o.Cover {
					slow = append(slow, r)
				}
				if len(samples) < 6 && o.Kind != "safe" && o.Kind != "cover" {
					samples = append(samples, map[string]any{"obligation": o.ID, "kind": o.Kind, "clause": o.Desc, "result": r.Status, "solver": r.Solver, "seconds": round3(r.Seconds), "smt2": r.File})
				}
				continue
			}
			rp := writeReplay(cx, replayDir, *prop, ur, r)
			v := violation{Obl: o.ID, Reason: r.Status, Replay: rp, NoInput: true, Unit: ur.Name}
			if r.Status == "sat" {
				if confirmed := tryReplay(cx, *prop, ur, r, rp); confirmed {
					v.NoInput = false
				}
			}
			viols = append(viols, v)
		}
	}
	// claimed obligations must exist
	for _, id := range claims {
		if _, ok := produced[id]; !ok {
			rp := filepath.Join(replayDir, sanitizeFile(id)+".missing.json")
			writeJSON(rp, map[string]any{"obligation": id, "reason": "claimed obligation was not generated from the current tree (contract-unbound)"})
			viols = append(viols, violation{Obl: id, Reason: "missing", Replay: rp, NoInput: true})
		}
	}
	if *writeClaims {
		saveHoudiniHints(filepath.Join(verifRoot, "obligations", "houdini_hints.json"))
		var ids []string
		for id, r := range produced {
			if r.Obl.Kind == "safe" || r.Obl.Kind == "frame" || r.Obl.Kind == "cover" || strings.HasSuffix(id, "@finding") || strings.Contains(id, "#") || strings.Contains(id, "auto-frame") {
				continue
			}
			ids = append(ids, id)
		}
		sort.Strings(ids)
		os.MkdirAll(filepath.Join(verifRoot, "obligations"), 0o755)
		os.WriteFile(filepath.Join(verifRoot, "obligations", *prop+".claims"), []byte("# obligations that must be generated and discharged for "+*prop+" (safe:/frame:/cover: obligations and further instances #n of a listed clause are all required to discharge too, whatever their number)\n"+strings.Join(ids, "\n")+"\n"), 0o644)
	}
	// a failed obligation without a replayable model: look for a concrete failing input by executing the probes
	// registered for the function (in-package tests with an executable oracle, run on the real code through -overlay)
	probesRun := runProbes(cx, *prop, viols)
	// thorough tier: the must-fail corpus of this property
	var selftestOut map[string]any
	if *tier == "thorough" && len(extraOverlay) == 0 {
		selftestOut = runSelftest(*repo, *prop, cs, outDir)
	}
	// bounded stand-ins and thorough extras
	var boundedOut []any
	if len(meta.Bounded) > 0 {
		bo, bv := runExtras(cx, *prop, *tier, seed, meta, replayDir)
		boundedOut = bo
		viols = append(viols, bv...)
	}

	wall := time.Since(t0).Seconds()
	// output
	for _, f := range findingsOut {
		fmt.Println(f)
	}
	if *verbose || len(viols) > 0 {
		for _, ur := range units {
			for _, r := range ur.Results {
				ok := r.OK()
				if !ok && !strings.HasSuffix(r.Obl.ID, "@finding") {
					fmt.Printf("FAILED %s : %s (%s, %s) %s:%d\n       %s\n", r.Obl.ID, r.Status, r.Solver, fmt.Sprintf("%.1fs", r.Seconds), r.Obl.Pos.Filename, r.Obl.Pos.Line, r.Obl.Desc)
					if r.Model != "" {
						fmt.Printf("       model: %s\n", strings.ReplaceAll(r.Model, "\n", " "))
					}
				}
			}
			if ur.Err != "" {
				fmt.Printf("ENGINE %s : %s\n", ur.Name, firstLines(ur.Err, 2))
			}
		}
	}
	seen := map[string]bool{}
	for _, v := range viols {
		line := fmt.Sprintf("VIOLATION property=%s replay=%s", *prop, v.Replay)
		if v.NoInput {
			line += " no-failing-input-found"
		}
		if !seen[line] {
			fmt.Println(line)
			seen[line] = true
		}
	}
	fmt.Printf("%s %s: %d obligations, %d discharged, %d violations, %d known findings, %.1fs (load %.1fs, vcgen %.1fs)\n", *prop, *tier, nObl, nDis, len(viols), len(findingsOut), wall, loadS, buildS)

	if !*noEvidence {
		var assumptions []string
		assumptions = append(assumptions, meta.Assumptions...)
		assumptions = append(assumptions,
			"go/packages, go/types, go/ssa (x/tools v0.29.0) SSA construction and govc's semantics of each SSA instruction are trusted",
			"machine integers are treated as mathematical integers (no wrap-around) in every function under contract",
			"strings are an uninterpreted sort with equality/len/concat; hashes and fingerprints are uninterpreted functions (no collisions assumed)",
		)
		for _, k := range sortedKeys(notes) {
			assumptions = append(assumptions, k)
		}
		if len(noEffect) > 0 {
			assumptions = append(assumptions, "external (non-repository) calls without a contract are assumed not to modify the modelled heap, results unconstrained: "+strings.Join(sortedKeys(noEffect), ", "))
		}
		tb := []string{"go/ssa x/tools v0.29.0", "govc VC generator (/verif/govc)", "z3 4.8.12", "z3 5.1.0", "cvc5 1.0.3"}
		for _, k := range sortedKeys(trustedCalls) {
			tb = append(tb, "assumed contract: "+k)
		}
		if len(samples) == 0 {
			samples = append(samples, map[string]any{"note": "no non-safety obligation discharged"})
		}
		ev := map[string]any{
			"property_id": *prop, "tier": *tier, "seed": seed, "level": "proof", "wall_s": round3(wall), "violations": len(viols),
			"coverage": map[string]any{
				"obligations": nObl, "discharged": nDis,
				"checker_cmd":              fmt.Sprintf("/verif/bin/govc check --prop %s --tier %s", *prop, *tier),
				"trusted_base":             tb,
				"functions_under_contract": funcNames,
				"lemmas":                   lemmaNames(lemmas),
				"by_kind":                  byKind, "by_solver": bySolver, "solver_s": round3(solverS),
				"abstracted_functions":     abstracted,
				"inlined_callees":          sortedKeys(inlined),
				"havoced_repo_calls":       sortedKeys(havocCalls),
				"bounded":                  boundedOut,
				"replay_probes_run":        probesRun,
				"must_fail_corpus":         selftestOut,
				"slowest_obligations":      slowest(slow, 5),
				"vacuity":                  map[string]any{"cover_obligations": covers},
				"known_findings_reported":  findingsOut,
				"samples":                  samples,
				"contracts_source":         cs.Source,
				"explanation":              "every obligation is a verification condition generated from the go/ssa form of the current /repo tree for a function under contract (or a lemma over spec functions) and discharged by an SMT solver; see DESIGN.md",
			},
			"assumptions": assumptions,
		}
		os.MkdirAll(filepath.Join(verifRoot, "evidence"), 0o755)
		writeJSON(filepath.Join(verifRoot, "evidence", *prop+".json"), ev)
	}
	if len(viols) > 0 {
		return 1
	}
	return 0
}

func lemmaNames(ls []*Lemma) []string {
	var out []string
	for _, l := range ls {
		out = append(out, l.Name)
	}
	return out
}

func round3(f float64) float64 { return float64(int(f*1000)) / 1000 }

func writeJSON(path string, v any) {
	b, _ := json.MarshalIndent(v, "", " ")
	os.WriteFile(path, append(b, '\n'), 0o644)
}

func (cx *Ctx) isInterface(pkg, name string) bool {
	// name like "(ResolvedSender).SendResolved"
	i := strings.Index(name, ")")
	if i < 0 {
		return false
	}
	tn := strings.TrimPrefix(name[:i], "(")
	t := cx.lookupType(pkg, tn)
	if t == nil {
		return false
	}
	_, ok := t.Underlying().(*types.Interface)
	return ok
}

func writeReplay(cx *Ctx, dir, prop string, ur *UnitResult, r *OblResult) string {
	rp := filepath.Join(dir, sanitizeFile(r.Obl.ID)+".json")
	m := map[string]any{
		"property":   prop,
		"obligation": r.Obl.ID,
		"kind":       r.Obl.Kind,
		"function":   ur.Name,
		"clause":     r.Obl.Desc,
		"position":   fmt.Sprintf("%s:%d", r.Obl.Pos.Filename, r.Obl.Pos.Line),
		"status":     r.Status,
		"solver":     r.Solver,
		"smt2":       r.File,
		"model":      r.Model,
		"output":     firstLines(r.Output, 40),
	}
	writeJSON(rp, m)
	return rp
}

// structuralUnit decides a type-level obligation over the loaded packages: one obligation per matching struct field,
// plus one that the rule matches at least one field (vacuity). Decided by go/types, reported under solver "go/types".
func (cx *Ctx) structuralUnit(sd *Structural) *UnitResult {
	ur := &UnitResult{Name: "structural " + sd.Name, Unit: cx.newUnit("structural " + sd.Name)}
	if len(sd.NoMethods) > 0 {
		// second form: named types that must not acquire certain methods (e.g. an interface a library gives meaning to)
		matched := 0
		var paths []string
		for path := range cx.pkgs {
			for _, pre := range sd.In {
				if strings.HasPrefix(path, pre) {
					paths = append(paths, path)
					break
				}
			}
		}
		sort.Strings(paths)
		for _, path := range paths {
			pk := cx.pkgs[path]
			if pk.Types == nil {
				continue
			}
			for _, tname := range sd.Types {
				tn, ok := pk.Types.Scope().Lookup(tname).(*types.TypeName)
				if !ok {
					continue
				}
				matched++
				ms := types.NewMethodSet(types.NewPointer(tn.Type()))
				for _, m := range sd.NoMethods {
					pos := cx.fset.Position(tn.Pos())
					o := &Obl{ID: fmt.Sprintf("structural:%s/%s.%s.no-%s", sd.Name, pk.Types.Name(), tname, m), Kind: "structural", Pos: pos,
						Desc: fmt.Sprintf("type %s must not have a method %s", tname, m)}
					r := &OblResult{Obl: o, Solver: "go/types", Status: "unsat"}
					if sel := ms.Lookup(pk.Types, m); sel != nil {
						r.Status = "sat"
						r.Output = fmt.Sprintf("%s: type %s has method %s", cx.fset.Position(sel.Obj().Pos()), tname, m)
					}
					ur.Results = append(ur.Results, r)
				}
			}
		}
		cov := &OblResult{Obl: &Obl{ID: "structural:" + sd.Name + "/cover", Kind: "cover", Cover: true, Desc: "the rule matches at least one type"}, Solver: "go/types", Status: "sat"}
		if matched == 0 {
			cov.Status = "unsat"
		}
		ur.Results = append(ur.Results, cov)
		return ur
	}
	fre, err := regexp.Compile(sd.Fields)
	if err != nil {
		ur.Err = "structural " + sd.Name + ": bad fields regexp: " + err.Error()
		return ur
	}
	var xre *regexp.Regexp
	if sd.Except != "" {
		if xre, err = regexp.Compile(sd.Except); err != nil {
			ur.Err = "structural " + sd.Name + ": bad except regexp: " + err.Error()
			return ur
		}
	}
	okType := func(t types.Type) bool {
		for {
			t = types.Unalias(t)
			if p, ok := t.(*types.Pointer); ok {
				t = p.Elem()
				continue
			}
			break
		}
		n, ok := t.(*types.Named)
		if !ok {
			return false
		}
		for _, want := range sd.Types {
			if n.Obj().Name() == want {
				return true
			}
		}
		return false
	}
	var paths []string
	for path := range cx.pkgs {
		for _, pre := range sd.In {
			if strings.HasPrefix(path, pre) {
				paths = append(paths, path)
				break
			}
		}
	}
	sort.Strings(paths)
	matched := 0
	for _, path := range paths {
		pk := cx.pkgs[path]
		if pk.Types == nil {
			continue
		}
		sc := pk.Types.Scope()
		for _, name := range sc.Names() {
			tn, ok := sc.Lookup(name).(*types.TypeName)
			if !ok {
				continue
			}
			st, ok := tn.Type().Underlying().(*types.Struct)
			if !ok {
				continue
			}
			for i := 0; i < st.NumFields(); i++ {
				yn := reflect.StructTag(st.Tag(i)).Get("yaml")
				if j := strings.Index(yn, ","); j >= 0 {
					yn = yn[:j]
				}
				if yn == "" || yn == "-" || !fre.MatchString(yn) || (xre != nil && xre.MatchString(yn)) {
					continue
				}
				matched++
				f := st.Field(i)
				pos := cx.fset.Position(f.Pos())
				o := &Obl{ID: fmt.Sprintf("structural:%s/%s.%s.%s", sd.Name, pk.Types.Name(), name, f.Name()), Kind: "structural", Pos: pos,
					Desc: fmt.Sprintf("field %s.%s (yaml %q) of type %s must have one of the types %v", name, f.Name(), yn, f.Type(), sd.Types)}
				r := &OblResult{Obl: o, Solver: "go/types", Status: "unsat"}
				if !okType(f.Type()) {
					r.Status = "sat"
					r.Output = fmt.Sprintf("%s: field %s.%s (yaml %q) has type %s", pos, name, f.Name(), yn, f.Type())
				}
				ur.Results = append(ur.Results, r)
			}
		}
	}
	cov := &OblResult{Obl: &Obl{ID: "structural:" + sd.Name + "/cover", Kind: "cover", Cover: true, Desc: "the rule matches at least one field"}, Solver: "go/types", Status: "sat"}
	if matched == 0 {
		cov.Status = "unsat"
	}
	ur.Results = append(ur.Results, cov)
	return ur
}

// slowest: the n discharged obligations that took the solver longest (a watch list for near-timeout proofs)
func slowest(rs []*OblResult, n int) []map[string]any {
	sort.Slice(rs, func(i, j int) bool { return rs[i].Seconds > rs[j].Seconds })
	var out []map[string]any
	for i := 0; i < n && i < len(rs); i++ {
		out = append(out, map[string]any{"obligation": rs[i].Obl.ID, "seconds": round3(rs[i].Seconds), "solver": rs[i].Solver})
	}
	return out
}
