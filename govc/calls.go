package main

// Call handling: builtins, trusted externals, contracts, inlining, havoc.

import (
	"regexp"
	"sort"
	"fmt"
	"go/token"
	"go/types"
	"strings"

	"golang.org/x/tools/go/ssa"
)

func (fr *Frame) call(st *State, instr ssa.Instruction, c *ssa.CallCommon) Val {
	var args []Val
	for _, a := range c.Args {
		args = append(args, fr.get(a))
	}
	fnv := fr.get(c.Value)
	return fr.callWith(st, instr, c, fnv, args)
}

func resultVal(u *Unit, sig *types.Signature, vals []Val) Val {
	switch len(vals) {
	case 0:
		return Val{T: "false", S: "Bool"}
	case 1:
		return vals[0]
	}
	return Val{Tup: vals}
}

func (fr *Frame) freshResults(sig *types.Signature, name string) []Val {
	var out []Val
	for i := 0; i < sig.Results().Len(); i++ {
		out = append(out, fr.havocVal(sig.Results().At(i).Type(), fmt.Sprintf("%s%s.r%d", fr.prefix, name, i)))
	}
	return out
}

func (fr *Frame) callWith(st *State, instr ssa.Instruction, c *ssa.CallCommon, fnv Val, args []Val) Val {
	u := fr.u
	pos := instr.Pos()
	sig := c.Signature()
	// builtins
	if b, ok := c.Value.(*ssa.Builtin); ok {
		return fr.callBuiltin(st, instr, b, c, args)
	}
	var callee *ssa.Function
	var calleeName string
	if c.IsInvoke() {
		recvT := c.Value.Type()
		calleeName = ifaceMethodName(recvT, c.Method.Name())
		fr.safe(st, not(eq(fnv.T, "0")), pos, "nil", "method call on nil interface "+calleeName)
		full := append([]Val{fnv}, args...)
		fr.atCall(st, calleeName, full, pos)
		var res Val
		if fc := u.cx.ifaceContract(recvT, c.Method.Name()); fc != nil {
			u.callsContract[calleeName] = true
			res = fr.applyContract(st, fc, nil, c.Method.Type().(*types.Signature), full, pos, calleeName, recvT)
		} else if sp, ok := trustedInvoke[c.Method.Name()+"@"+typeKeyFull(recvT)]; ok {
			u.callsTrusted[calleeName] = true
			res = sp(fr, st, full, instr)
		} else {
			res = fr.defaultCall(st, sig, calleeName, strings.HasPrefix(namedPkg(recvT), modPath), full)
		}
		fr.afterCallA(st, calleeName, res, full)
		return res
	}
	if fnv.Fn != nil {
		callee = fnv.Fn
	} else if sc := c.StaticCallee(); sc != nil {
		callee = sc
	}
	if callee == nil {
		// dynamic call through a function value
		calleeName = "dynamic:" + valueDesc(c.Value)
		fr.safe(st, not(eq(fnv.T, "0")), pos, "nil", "call of nil function value")
		fr.atCall(st, calleeName, args, pos)
		if fr.declaredNoEffect(calleeName) {
			u.callsNoEffect[calleeName] = true
			u.note("call through function value %s in %s: declared noeffect (assumed not to modify the modelled heap), result unconstrained", valueDesc(c.Value), fr.fn)
		} else if top := fr.topFrame(); top.fc != nil && matchAny(top.fc.FreshOnly, calleeName) {
			u.callsNoEffect[calleeName] = true
			u.note("call through function value %s in %s: declared freshonly (assumed to modify only objects allocated since %s was entered), result unconstrained", valueDesc(c.Value), fr.fn, top.fn)
			u.havocFreshOnly(st, u.heapCur(top.entry, "$alloc"))
		} else {
			u.callsHavoc[calleeName] = true
			u.havocAll(st)
		}
		res := resultVal(u, sig, fr.freshResults(sig, "dyn"))
		fr.afterCallA(st, calleeName, res, args)
		return res
	}
	calleeName = callee.String()
	full := args
	if len(fnv.Bind) > 0 || (callee.FreeVars != nil && fnv.Fn != nil) {
		// closure: bindings are passed separately
	}
	fr.atCall(st, calleeName, full, pos)
	var res Val
	origin := callee
	if o := callee.Origin(); o != nil {
		origin = o
	}
	if fr.declaredNoEffect(calleeName) {
		u.callsNoEffect[calleeName] = true
		u.note("call of %s in %s: declared noeffect (assumed not to modify the modelled heap), result unconstrained", calleeName, fr.fn)
		rs := fr.freshResults(sig, "noeff")
		for _, r := range rs {
			u.loadedFacts(st, r)
		}
		res = resultVal(u, sig, rs)
	} else if sp, ok := trusted[origin.String()]; ok {
		u.callsTrusted[calleeName] = true
		res = sp(fr, st, full, instr)
	} else if top := fr.topFrame(); top.fc != nil && matchAny(top.fc.Opaque, calleeName) {
		res = fr.defaultCall(st, sig, calleeName, inRepo(callee), full)
	} else if fc := u.cx.contractFor(callee); fc != nil && !fc.Inline && !(fr.top && origin == fr.fn && false) {
		u.callsContract[calleeName] = true
		fr.callBind = fnv.Bind
		res = fr.applyContract(st, fc, origin, origin.Signature, full, pos, calleeName, nil)
		fr.callBind = nil
	} else if top := fr.topFrame(); top.fc != nil && matchAny(top.fc.Opaque, calleeName) {
		res = fr.defaultCall(st, sig, calleeName, inRepo(callee), full)
	} else if fr.canInline(origin) {
		u.callsInlined[calleeName] = true
		res = fr.inline(st, origin, full, fnv.Bind, pos)
	} else {
		res = fr.defaultCall(st, sig, calleeName, inRepo(callee), full)
	}
	fr.afterCallA(st, calleeName, res, full)
	return res
}

func typeKeyFull(t types.Type) string { return types.TypeString(types.Unalias(t), nil) }

func ifaceMethodName(recv types.Type, m string) string {
	return "(" + types.TypeString(recv, nil) + ")." + m
}

func valueDesc(v ssa.Value) string {
	switch x := v.(type) {
	case *ssa.UnOp:
		if fv, ok := x.X.(*ssa.FreeVar); ok {
			return "freevar:" + fv.Name()
		}
		if g, ok := x.X.(*ssa.Global); ok {
			// a package-level function variable (e.g. types.Alerts = alert.Alerts): named after the variable
			return "global:" + g.Name()
		}
		if al, ok := x.X.(*ssa.Alloc); ok && al.Comment != "" {
			return "local:" + al.Comment
		}
		if fa, ok := x.X.(*ssa.FieldAddr); ok {
			st := fa.X.Type().Underlying().(*types.Pointer).Elem().Underlying().(*types.Struct)
			return "field:" + st.Field(fa.Field).Name()
		}
		if ia, ok := x.X.(*ssa.IndexAddr); ok {
			// element of a slice/array: named after the container (stable under renumbering of SSA registers)
			return "elem:" + valueDesc(ia.X)
		}
	case *ssa.Parameter:
		return "param:" + x.Name()
	case *ssa.FreeVar:
		return "freevar:" + x.Name()
	case *ssa.Call:
		// a function value returned by a call: named after the function that returned it
		if sc := x.Call.StaticCallee(); sc != nil {
			return "resultof:" + sc.Name()
		}
	}
	return v.Name()
}

func (fr *Frame) canInline(f *ssa.Function) bool {
	if len(f.Blocks) == 0 {
		return false
	}
	if fr.depth >= maxInlineDepth {
		return false
	}
	for p := fr; p != nil; p = p.parent {
		if p.fn == f {
			return false
		}
	}
	if f.Recover != nil {
		return false
	}
	if inRepo(f) {
		return len(f.Blocks) <= 60
	}
	// dependency code: inline only small, loop-free functions
	if len(f.Blocks) > 12 {
		return false
	}
	if len(loopHeaders(f)) > 0 {
		return false
	}
	// dependency code is inlined only from a short allowlist of plain-Go helper packages
	p := fnPkgPath(f)
	for _, good := range []string{"github.com/prometheus/common/model", "google.golang.org/protobuf/types/known/timestamppb", "google.golang.org/protobuf/types/known/durationpb", "maps", "slices", "cmp"} {
		if p == good {
			return true
		}
	}
	return false
}

func (fr *Frame) inline(st *State, f *ssa.Function, args []Val, bind []Val, pos token.Pos) Val {
	u := fr.u
	sub := u.newFrame(f, fr)
	if len(args) != len(f.Params) {
		u.unsup("inline arity mismatch for %s", f)
	}
	for i, p := range f.Params {
		a := args[i]
		a.Ty = p.Type()
		sub.vals[p] = a
	}
	if len(f.FreeVars) > 0 {
		if len(bind) != len(f.FreeVars) {
			u.unsup("closure %s called without known bindings", f)
		}
		for i, fv := range f.FreeVars {
			sub.vals[fv] = bind[i]
		}
	}
	out, res := sub.run(st.clone())
	g := st.guard
	*st = *out
	// control returns to the caller only via returns; panics inside are safety obligations already.
	_ = g
	return resultVal(u, f.Signature, res)
}

func matchAny(pats []string, name string) bool {
	for _, p := range pats {
		if matchCallee(p, name) {
			return true
		}
	}
	return false
}

func (fr *Frame) declaredNoEffect(name string) bool {
	for f := fr; f != nil; f = f.parent {
		if f.fc != nil {
			for _, p := range f.fc.NoEffect {
				if matchCallee(p, name) {
					return true
				}
			}
		}
	}
	return false
}

// defaultCall: no contract, not inlinable.
func (fr *Frame) defaultCall(st *State, sig *types.Signature, name string, repoCode bool, args []Val) Val {
	u := fr.u
	if repoCode && fr.declaredNoEffect(name) {
		repoCode = false
	}
	if repoCode {
		u.callsHavoc[name] = true
		u.havocAll(st)
	} else {
		u.callsNoEffect[name] = true
	}
	if !repoCode {
		// a function literal handed to code outside the repository (sync.Map.Range, sync.Once.Do, sort.Slice ...): it may be
		// run any number of times, so the variables it captures by reference hold unknown values afterwards
		for _, a := range args {
			if a.Fn == nil || len(a.Bind) == 0 {
				continue
			}
			for k, b := range a.Bind {
				if k >= len(a.Fn.FreeVars) {
					break
				}
				pt, ok := a.Fn.FreeVars[k].Type().Underlying().(*types.Pointer)
				if !ok || (b.T == "" && b.Loc == nil) || !storesToFreeVar(a.Fn, a.Fn.FreeVars[k]) {
					continue
				}
				u.note("function literal %s handed to %s: may run any number of times; assumed to modify only the variables it captures (their values are unknown afterwards)", a.Fn.Name(), name)
				nv := fr.havocVal(pt.Elem(), fmt.Sprintf("%scb.%s.%s", fr.prefix, a.Fn.Name(), a.Fn.FreeVars[k].Name()))
				u.loadedFacts(st, nv)
				u.store(st, b, pt.Elem(), nv)
			}
		}
	}
	res := fr.freshResults(sig, "call")
	for _, r := range res {
		u.loadedFacts(st, r)
	}
	if stdNonNilResult[name] && len(res) > 0 && res[0].T != "" {
		if _, isPtr := sig.Results().At(0).Type().Underlying().(*types.Pointer); isPtr {
			u.note("standard library: %s never returns nil (documented; trusted)", name)
			u.assumeG(st, not(eq(res[0].T, "0")))
		}
	}
	return resultVal(u, sig, res)
}

// storesToFreeVar: does the function literal assign to this captured variable (directly, or by handing it on to a
// nested literal)?
func storesToFreeVar(f *ssa.Function, fv *ssa.FreeVar) bool {
	for _, b := range f.Blocks {
		for _, in := range b.Instrs {
			switch x := in.(type) {
			case *ssa.Store:
				if x.Addr == fv {
					return true
				}
			case *ssa.MakeClosure:
				for k, bb := range x.Bindings {
					if bb == fv {
						// handed on to a nested literal: it is assigned only if that literal assigns it
						nf, ok := x.Fn.(*ssa.Function)
						if !ok || k >= len(nf.FreeVars) || storesToFreeVar(nf, nf.FreeVars[k]) {
							return true
						}
					}
				}
			case ssa.CallInstruction:
				for _, a := range x.Common().Args {
					if a == fv {
						return true
					}
				}
			}
		}
	}
	return false
}

// stdNonNilResult: standard-library constructors whose (first) result is documented never to be nil.
var stdNonNilResult = map[string]bool{
	"time.NewTimer": true, "time.NewTicker": true, "time.AfterFunc": true,
}

// ---------------------------------------------------------------------------
// at-call assertions and ghost call history

func (fr *Frame) topFrame() *Frame {
	t := fr
	for t.parent != nil {
		t = t.parent
	}
	return t
}

// matchCallee: substring match; a pattern ending in '$' must match the end of the callee name.
func matchCallee(pat, name string) bool {
	if strings.HasSuffix(pat, "$") {
		return strings.HasSuffix(name, strings.TrimSuffix(pat, "$"))
	}
	return strings.Contains(name, pat)
}

func (fr *Frame) atCall(st *State, name string, args []Val, pos token.Pos) {
	u := fr.u
	top := fr.topFrame()
	if top.fc == nil || u.dry > 0 {
		return
	}
	for i, c := range top.fc.AtCalls {
		if !matchCallee(c.Callee, name) {
			continue
		}
		u.patternHit("at call", c.Callee, name, top)
		env := top.specEnv(st, top.entry)
		if top == fr {
			// locals named in the clause mean their value here: inside a loop that is the loop-carried value
			env.header = top.innermostLoopHeader(top.curBlock)
			env.softHeader = true
		}
		for k, a := range args {
			env.vars[fmt.Sprintf("arg%d", k)] = a
		}
		t := trBoolTol(env, c, "false")
		u.oblige(st, "at", fmt.Sprintf("%s/at:%s", top.fnLabel(), clauseName(c, i)), t, pos, c, "at call "+name+": "+c.Src)
		// asserted here, hence available as a fact from here on (assert-then-assume) - unless the clause could not be
		// translated (it names something the function no longer has): assuming `false` would make every later
		// obligation of the function vacuously true
		if t != "false" {
			u.assumeG(st, t)
		}
	}
}

func (fr *Frame) afterCall(st *State, name string, res Val) { fr.afterCallA(st, name, res, nil) }

// afterCallA: the arguments of the call are visible to `after call` clauses as arg0.. (results as res0..).
func (fr *Frame) afterCallA(st *State, name string, res Val, args []Val) {
	u := fr.u
	top := fr.topFrame()
	if top.fc == nil {
		return
	}
	for _, c := range top.fc.AfterCalls {
		if !matchCallee(c.Callee, name) {
			continue
		}
		u.patternHit("after call", c.Callee, name, top)
		env := top.specEnv(st, top.entry)
		rs := res.Tup
		if rs == nil && res.T != "" {
			rs = []Val{res}
		}
		for k, r := range rs {
			env.vars[fmt.Sprintf("res%d", k)] = r
		}
		for k, a := range args {
			env.vars[fmt.Sprintf("arg%d", k)] = a
		}
		u.assumeG(st, trBoolTol(env, c, "true"))
		u.note("assumed about the result of %s in %s: %s", name, top.fn, c.Src)
	}
	// record called(...) / ret(...) ghosts for every pattern mentioned in the contract
	for _, pat := range top.ghostPatterns() {
		if !matchCallee(pat, name) {
			continue
		}
		u.patternHit("ghost", pat, name, top)
		g := "$called:" + pat
		u.regHeap(g, "Bool")
		wasCalled := u.heapCur(st, g)
		u.heapSet(st, g, "true")
		rs := res.Tup
		if rs == nil && res.T != "" {
			rs = []Val{res}
		}
		cn := "$count:" + pat
		u.regHeap(cn, "Int")
		u.heapSet(st, cn, app("+", u.heapCur(st, cn), "1"))
		// allocsince("pat", x): the allocation counter when the last matching call returned
		an := "$count:allocat:" + pat
		u.regHeap(an, "Int")
		u.heapSet(st, an, u.heapCur(st, "$alloc"))
		for k, r := range rs {
			if r.S == "Bool" {
				tn := fmt.Sprintf("$cnttrue:%s:%d", pat, k)
				u.regHeap(tn, "Int")
				u.heapSet(st, tn, app("+", u.heapCur(st, tn), ite(r.T, "1", "0")))
			}
			if r.S == "Int" && r.Ty != nil && types.IsInterface(r.Ty) {
				// countnil<k>("pat"): number of calls whose k-th result (an error, say) was nil
				tn := fmt.Sprintf("$cntnil:%s:%d", pat, k)
				u.regHeap(tn, "Int")
				u.heapSet(st, tn, app("+", u.heapCur(st, tn), ite(eq(r.T, "0"), "1", "0")))
			}
		}
		for k, r := range rs {
			if r.T == "" || r.S == "" {
				continue
			}
			rn := fmt.Sprintf("$ret:%s:%d", pat, k)
			u.regHeap(rn, r.S)
			u.heapSet(st, rn, r.T)
			fn := fmt.Sprintf("$first:%s:%d", pat, k)
			u.regHeap(fn, r.S)
			if r.Ty != nil {
				u.ghostTy[rn], u.ghostTy[fn] = r.Ty, r.Ty
			}
			u.heapSet(st, fn, ite(wasCalled, u.heapCur(st, fn), r.T))
		}
	}
}

func (fr *Frame) ghostPatterns() []string {
	if fr.fc == nil {
		return nil
	}
	seen := map[string]bool{}
	var out []string
	var walk func(e Expr)
	walk = func(e Expr) {
		switch x := e.(type) {
		case *ECall:
			if (x.Fn == "called" || x.Fn == "ret" || x.Fn == "ret1" || x.Fn == "ret2" || x.Fn == "ret3" || x.Fn == "first" || x.Fn == "count" || x.Fn == "counttrue0" || x.Fn == "counttrue1" || x.Fn == "countnil0" || x.Fn == "countnil1" || x.Fn == "countnil2" || x.Fn == "allocsince" || x.Fn == "allocbefore") && len(x.Args) >= 1 {
				if s, ok := x.Args[0].(*EStr); ok && !seen[s.V] {
					seen[s.V] = true
					out = append(out, s.V)
				}
			}
			for _, a := range x.Args {
				walk(a)
			}
		case *EUnary:
			walk(x.X)
		case *EBinary:
			walk(x.X)
			walk(x.Y)
		case *ECond:
			walk(x.C)
			walk(x.A)
			walk(x.B)
		case *EMethod:
			walk(x.X)
			for _, a := range x.Args {
				walk(a)
			}
		case *EField:
			walk(x.X)
		case *EIndex:
			walk(x.X)
			walk(x.I)
		case *EQuant:
			walk(x.Body)
		case *EOld:
			walk(x.X)
		case *ELet:
			walk(x.V)
			walk(x.B)
		}
	}
	all := append([]*Clause{}, fr.fc.Requires...)
	all = append(all, fr.fc.Ensures...)
	all = append(all, fr.fc.AtCalls...)
	all = append(all, fr.fc.AfterCalls...)
	all = append(all, fr.fc.Assumes...)
	for _, v := range fr.fc.Invariants {
		all = append(all, v...)
	}
	for _, c := range all {
		walk(c.E)
	}
	return out
}

// ---------------------------------------------------------------------------
// contracts at call sites

func (fr *Frame) applyContract(st *State, fc *FuncContract, callee *ssa.Function, sig *types.Signature, args []Val, pos token.Pos, name string, recvT types.Type) Val {
	u := fr.u
	pre := st.clone()
	env := u.contractEnv(fc, callee, sig, args, st, pre, recvT)
	env.tpFrame = fr
	if callee != nil && len(callee.FreeVars) > 0 {
		// contract of a closure: its free variables are the values bound at the make-closure site
		if len(fr.callBind) != len(callee.FreeVars) {
			u.unsup("closure %s under contract called without known bindings", callee)
		}
		for i, fv := range callee.FreeVars {
			b := fr.callBind[i]
			b.Ty = fv.Type()
			env.vars[fv.Name()] = b
		}
	}
	for i, c := range fc.Requires {
		t := env.trBool(c.E)
		u.oblige(st, "pre", fmt.Sprintf("%s/pre:%s:%s", fr.topFrame().fnLabel(), shortName(name), clauseName(c, i)), t, pos, c, "precondition of "+name+": "+c.Src)
	}
	for _, c := range fc.Assumes {
		u.assumeG(st, env.trBool(c.E))
		u.note("assumed input invariant of %s (not established by callers): %s", name, c.Src)
	}
	// havoc assigns
	if fc.Pure {
		// no effect
	} else if !fc.HasAssigns {
		u.havocAll(st)
		u.note("contract of %s has no assigns clause: whole heap havoced at call sites", name)
	} else {
		for _, a := range fc.Assigns {
			env.cur = pre
			u.havocDesignator(env, st, a)
		}
		// the callee may allocate
		oa := u.heapCur(st, "$alloc")
		na := u.heapHavoc(st, "$alloc")
		u.assume(app(">=", na, oa))
		oc := u.heapCur(st, "$clock")
		nc := u.heapHavoc(st, "$clock")
		u.assume(app(">=", nc, oc))
		u.flushBounds(st)
	}
	var res []Val
	if fc.Pure && sig.Results().Len() == 1 {
		// deterministic function of its arguments
		var as, ss []string
		for _, a := range args {
			if a.Loc != nil || a.Tup != nil {
				u.unsup("pure call with sub-location argument")
			}
			as = append(as, a.T)
			ss = append(ss, a.S)
		}
		rt := sig.Results().At(0).Type()
		f := u.enc.declFun("pure$"+name, ss, u.enc.sortOf(rt))
		t := f
		if len(as) > 0 {
			t = app(f, as...)
		}
		res = []Val{{T: t, S: u.enc.sortOf(rt), Ty: rt}}
	} else {
		res = fr.freshResults(sig, shortName(name))
	}
	for _, r := range res {
		u.loadedFacts(st, r)
	}
	env.cur = st
	env.old = pre
	env.result = res
	bindResults(env, sig, res)
	if fc.Fresh && len(res) > 0 {
		u.assumeG(st, and(app(">", res[0].T, u.heapCur(pre, "$alloc")), app("<=", res[0].T, u.heapCur(st, "$alloc"))))
	}
	for _, c := range fc.Ensures {
		if ghostRe.MatchString(c.Src) {
			// a postcondition phrased over the callee's own call history (called/ret/count ghosts) has no meaning in
			// the caller's history: it is proved for the callee but never assumed at call sites.
			continue
		}
		t := env.trBool(c.E)
		u.assumeG(st, t)
	}
	return resultVal(u, sig, res)
}

var ghostRe = regexp.MustCompile(`\b(called|ret|ret1|ret2|ret3|first|count|counttrue0|counttrue1|countnil0|countnil1|countnil2|allocsince|allocbefore)\("`)

func shortName(n string) string {
	if i := strings.LastIndex(n, "/"); i >= 0 {
		n = n[i+1:]
	}
	return n
}

func bindResults(env *Env, sig *types.Signature, res []Val) {
	for i, r := range res {
		env.vars[fmt.Sprintf("result%d", i)] = r
		if n := sig.Results().At(i).Name(); n != "" && n != "_" {
			if _, clash := env.vars[n]; !clash {
				env.vars[n] = r
			}
		}
	}
	if len(res) == 1 {
		env.vars["result"] = res[0]
	}
}

func (u *Unit) contractEnv(fc *FuncContract, callee *ssa.Function, sig *types.Signature, args []Val, cur, old *State, recvT types.Type) *Env {
	env := &Env{u: u, vars: map[string]Val{}, cur: cur, old: old}
	env.pkg = u.cx.typesPkg(fc.PkgPath)
	if callee != nil {
		for i, p := range callee.Params {
			if i < len(args) {
				a := args[i]
				a.Ty = p.Type()
				env.vars[p.Name()] = a
			}
		}
	} else {
		// interface method: receiver is "recv", params by signature names
		if len(args) > 0 {
			a := args[0]
			a.Ty = recvT
			env.vars["recv"] = a
		}
		for i := 0; i < sig.Params().Len(); i++ {
			if i+1 < len(args) {
				a := args[i+1]
				a.Ty = sig.Params().At(i).Type()
				n := sig.Params().At(i).Name()
				if n == "" || n == "_" {
					n = fmt.Sprintf("p%d", i)
				}
				env.vars[n] = a
			}
		}
	}
	return env
}

// havocDesignator havocs the heap part named by an assigns designator.
// Forms:  x.f   (one field of one object)    m[*] (map contents)   s[*] (slice elements)
//         T.f   whole field heap of struct type T (all objects)    *  everything    x.*  all fields of object x
func (u *Unit) havocDesignator(env *Env, st *State, d string) {
	d = strings.TrimSpace(d)
	if d == "*" {
		u.havocAll(st)
		return
	}
	if strings.HasPrefix(d, "deref(") && strings.HasSuffix(d, ")") {
		e, err := ParseExpr(d[len("deref(") : len(d)-1])
		if err != nil {
			u.unsup("assigns %q: %v", d, err)
		}
		v := env.tr(e)
		pt, ok := v.Ty.Underlying().(*types.Pointer)
		if !ok {
			u.unsup("assigns %q: not a pointer", d)
		}
		if isStructT(pt.Elem()) {
			u.unsup("assigns %q: use x.* for struct pointees", d)
		}
		nv := u.enc.freshConst("cellh", u.enc.sortOf(pt.Elem()))
		u.store(st, v, pt.Elem(), Val{T: nv, S: u.enc.sortOf(pt.Elem()), Ty: pt.Elem()})
		return
	}
	if strings.HasPrefix(d, "heap:") {
		// raw heap-name prefix: every registered heap array whose name starts with it
		pre := strings.TrimPrefix(d, "heap:")
		for _, name := range sortedKeys(u.heapSort) {
			if strings.HasPrefix(name, pre) {
				u.heapHavoc(st, name)
			}
		}
		return
	}
	if strings.HasSuffix(d, "[*]") {
		e, err := ParseExpr(strings.TrimSuffix(d, "[*]"))
		if err != nil {
			u.unsup("assigns %q: %v", d, err)
		}
		v := env.tr(e)
		switch t := v.Ty.Underlying().(type) {
		case *types.Map:
			dom, val, ks, vs := u.mapHeaps(t)
			nd := u.enc.freshConst("domh", "(Array "+ks+" Bool)")
			nv := u.enc.freshConst("valh", "(Array "+ks+" "+vs+")")
			u.heapSet(st, dom, sto(u.heapCur(st, dom), v.T, nd))
			u.heapSet(st, val, sto(u.heapCur(st, val), v.T, nv))
			u.assume(app(">=", u.card(ks, nd), "0"))
		case *types.Slice:
			h := u.arrHeap(t.Elem())
			nr := u.enc.freshConst("rowh", "(Array Int "+u.enc.sortOf(t.Elem())+")")
			// (a nil slice has no elements: nothing is written)
			cur := u.heapCur(st, h)
			base := app("sl_base", v.T)
			u.heapSet(st, h, sto(cur, base, ite(eq(base, "0"), sel(cur, base), nr)))
		default:
			u.unsup("assigns %q: not a map or slice", d)
		}
		return
	}
	if strings.HasSuffix(d, ".*") {
		e, err := ParseExpr(strings.TrimSuffix(d, ".*"))
		if err != nil {
			u.unsup("assigns %q: %v", d, err)
		}
		v := env.tr(e)
		pt, ok := v.Ty.Underlying().(*types.Pointer)
		if !ok || v.Loc != nil {
			u.unsup("assigns %q: not a pointer to struct", d)
		}
		stT := pt.Elem()
		s := stT.Underlying().(*types.Struct)
		for i := 0; i < s.NumFields(); i++ {
			h, ft := u.fieldHeap(stT, i)
			nv := u.enc.freshConst("fh", u.enc.sortOf(ft))
			u.heapSet(st, h, sto(u.heapCur(st, h), v.T, nv))
		}
		return
	}
	// x.f or T.f
	i := strings.LastIndex(d, ".")
	if i < 0 {
		u.unsup("assigns %q: unknown form", d)
	}
	left, fname := d[:i], d[i+1:]
	// try as type
	if tt := env.resolveType(left); tt != nil {
		if s, ok := tt.Underlying().(*types.Struct); ok {
			for k := 0; k < s.NumFields(); k++ {
				if s.Field(k).Name() == fname {
					h, _ := u.fieldHeap(tt, k)
					u.heapHavoc(st, h)
					return
				}
			}
		}
	}
	// generic struct type written with its type parameters, e.g. item[V].index: match the heap by name
	if strings.Contains(left, "[") && env.pkg != nil {
		prefix := "H$" + env.pkg.Name() + "." + left[:strings.Index(left, "[")] + "["
		for _, name := range sortedKeys(u.heapSort) {
			if strings.HasPrefix(name, prefix) && strings.HasSuffix(name, "$"+fname) {
				u.heapHavoc(st, name)
			}
		}
		return
	}
	e, err := ParseExpr(left)
	if err != nil {
		u.unsup("assigns %q: %v", d, err)
	}
	v := env.tr(e)
	loc := env.fieldLocOf(v, fname)
	if loc == nil {
		u.unsup("assigns %q: cannot resolve field", d)
	}
	nv := u.enc.freshConst("fh", u.enc.sortOf(loc.Ty))
	u.writeLoc(st, loc, nv)
}

// ---------------------------------------------------------------------------
// builtins

func (fr *Frame) callBuiltin(st *State, instr ssa.Instruction, b *ssa.Builtin, c *ssa.CallCommon, args []Val) Val {
	u := fr.u
	switch b.Name() {
	case "len":
		x := args[0]
		switch t := c.Args[0].Type().Underlying().(type) {
		case *types.Slice:
			return Val{T: app("sl_len", x.T), S: "Int"}
		case *types.Map:
			dom, _, ks, _ := u.mapHeaps(t)
			d := sel(u.heapCur(st, dom), x.T)
			u.cardFacts(ks, d)
			return Val{T: u.card(ks, d), S: "Int"}
		case *types.Basic:
			return Val{T: app("str_len", x.T), S: "Int"}
		case *types.Array:
			return Val{T: fmt.Sprint(t.Len()), S: "Int"}
		case *types.Chan:
			v := fr.havocVal(types.Typ[types.Int], "chanlen")
			u.assume(app(">=", v.T, "0"))
			return v
		case *types.Pointer:
			if a, ok := t.Elem().Underlying().(*types.Array); ok {
				return Val{T: fmt.Sprint(a.Len()), S: "Int"}
			}
		}
		u.unsup("len of %s", c.Args[0].Type())
	case "cap":
		x := args[0]
		switch t := c.Args[0].Type().Underlying().(type) {
		case *types.Slice:
			return Val{T: app("sl_cap", x.T), S: "Int"}
		case *types.Array:
			return Val{T: fmt.Sprint(t.Len()), S: "Int"}
		case *types.Chan:
			v := fr.havocVal(types.Typ[types.Int], "chancap")
			u.assume(app(">=", v.T, "0"))
			return v
		}
		u.unsup("cap of %s", c.Args[0].Type())
	case "append":
		return fr.doAppend(st, c, args)
	case "copy":
		// copy(dst, src): elements of dst prefix overwritten
		dst, src := args[0], args[1]
		dt := c.Args[0].Type().Underlying().(*types.Slice)
		n := u.enc.freshConst("ncopy", "Int")
		srcLen := ""
		if _, isStr := c.Args[1].Type().Underlying().(*types.Basic); isStr {
			srcLen = app("str_len", src.T)
		} else {
			srcLen = app("sl_len", src.T)
		}
		u.assume(eq(n, ite(app("<", app("sl_len", dst.T), srcLen), app("sl_len", dst.T), srcLen)))
		h := u.arrHeap(dt.Elem())
		es := u.enc.sortOf(dt.Elem())
		hc := u.heapCur(st, h)
		oldRow := sel(hc, app("sl_base", dst.T))
		newRow := u.enc.freshConst("row", "(Array Int "+es+")")
		j := fmt.Sprintf("j!%d", u.enc.fresh)
		u.enc.fresh++
		if _, isStr := c.Args[1].Type().Underlying().(*types.Basic); !isStr {
			srcRow := sel(hc, app("sl_base", src.T))
			u.assume(fmt.Sprintf("(forall ((%s Int)) (! (= (select %s %s) (ite (and (<= (sl_off %s) %s) (< %s (+ (sl_off %s) %s))) (select %s (+ (sl_off %s) (- %s (sl_off %s)))) (select %s %s))) :pattern ((select %s %s))))",
				j, newRow, j, dst.T, j, j, dst.T, n, srcRow, src.T, j, dst.T, oldRow, j, newRow, j))
		} else {
			u.assume(fmt.Sprintf("(forall ((%s Int)) (! (=> (not (and (<= (sl_off %s) %s) (< %s (+ (sl_off %s) %s)))) (= (select %s %s) (select %s %s))) :pattern ((select %s %s))))",
				j, dst.T, j, j, dst.T, n, newRow, j, oldRow, j, newRow, j))
		}
		u.heapStoreAt(st, h, app("sl_base", dst.T), newRow)
		return Val{T: n, S: "Int"}
	case "delete":
		m, k := args[0], args[1]
		mt := c.Args[0].Type().Underlying().(*types.Map)
		u.mapDelete(st, mt, m.T, k.T)
		return Val{T: "false", S: "Bool"}
	case "clear":
		switch t := c.Args[0].Type().Underlying().(type) {
		case *types.Map:
			dom, _, ks, _ := u.mapHeaps(t)
			u.heapStoreAt(st, dom, args[0].T, u.emptySet(ks))
			return Val{T: "false", S: "Bool"}
		case *types.Slice:
			h := u.arrHeap(t.Elem())
			es := u.enc.sortOf(t.Elem())
			hc := u.heapCur(st, h)
			x := args[0]
			oldRow := sel(hc, app("sl_base", x.T))
			newRow := u.enc.freshConst("row", "(Array Int "+es+")")
			j := fmt.Sprintf("j!%d", u.enc.fresh)
			u.enc.fresh++
			u.assume(fmt.Sprintf("(forall ((%s Int)) (! (= (select %s %s) (ite (and (<= (sl_off %s) %s) (< %s (+ (sl_off %s) (sl_len %s)))) %s (select %s %s))) :pattern ((select %s %s))))",
				j, newRow, j, x.T, j, j, x.T, x.T, u.enc.zero(t.Elem()), oldRow, j, newRow, j))
			if sl, ok := c.Args[0].(*ssa.Slice); ok && sl.Low != nil {
				// clear(y[lo:]): the elements of y before lo are untouched, so the element set of that prefix window is unchanged
				if _, isSl := sl.X.Type().Underlying().(*types.Slice); isSl {
					if y, lo := fr.get(sl.X), fr.get(sl.Low); y.T != "" && lo.T != "" {
						el := u.sliceElems(es)
						u.assumeG(st, eq(app(el, newRow, app("sl_off", y.T), lo.T), app(el, oldRow, app("sl_off", y.T), lo.T)))
					}
				}
			}
			u.heapStoreAt(st, h, app("sl_base", x.T), newRow)
			return Val{T: "false", S: "Bool"}
		}
		u.unsup("clear of %s", c.Args[0].Type())
	case "min", "max":
		op := "<="
		if b.Name() == "max" {
			op = ">="
		}
		t := args[0].T
		for _, a := range args[1:] {
			t = ite(app(op, t, a.T), t, a.T)
		}
		return Val{T: t, S: args[0].S}
	case "print", "println":
		return Val{T: "false", S: "Bool"}
	case "ssa:wrapnilchk":
		return args[0]
	case "panic":
		return Val{T: "false", S: "Bool"}
	case "recover":
		return Val{T: "0", S: "Int"}
	case "close":
		// ghost event: visible to contracts as `at call chan.close` (arg0 = the channel) / count("chan.close")
		fr.atCall(st, "chan.close", args, instr.Pos())
		fr.afterCall(st, "chan.close", Val{T: "true", S: "Bool"})
		return Val{T: "false", S: "Bool"}
	}
	u.unsup("builtin %s", b.Name())
	return Val{}
}

// doAppend models append(s, t...) precisely for the in-place and the reallocating case.
func (fr *Frame) doAppend(st *State, c *ssa.CallCommon, args []Val) Val {
	u := fr.u
	s, t := args[0], args[1]
	stT := c.Args[0].Type().Underlying().(*types.Slice)
	h := u.arrHeap(stT.Elem())
	es := u.enc.sortOf(stT.Elem())
	var tLen string
	isStr := false
	if _, ok := c.Args[1].Type().Underlying().(*types.Basic); ok {
		isStr = true
		tLen = app("str_len", t.T)
	} else {
		tLen = app("sl_len", t.T)
	}
	hc := u.heapCur(st, h)
	newLen := u.enc.freshConst("applen", "Int")
	u.assume(eq(newLen, app("+", app("sl_len", s.T), tLen)))
	fits := u.enc.freshConst("appfits", "Bool")
	u.assume(eq(fits, app("<=", newLen, app("sl_cap", s.T))))
	// nothing appended and nil stays nil: Go returns s itself when len(t)==0? (append(s) returns s; with empty t it also returns s unchanged)
	freshBase := u.newRef(st)
	newCap := u.enc.freshConst("appcap", "Int")
	u.assume(app(">=", newCap, newLen))
	resBase := ite(fits, app("sl_base", s.T), freshBase)
	resOff := ite(fits, app("sl_off", s.T), "0")
	resCap := ite(fits, app("sl_cap", s.T), newCap)
	res := u.enc.freshConst("app", "Slice")
	u.assume(eq(res, app("mk_slice", resBase, resOff, newLen, resCap)))
	// element contents: row of result base
	oldRowS := sel(hc, app("sl_base", s.T))
	newRow := u.enc.freshConst("row", "(Array Int "+es+")")
	if es == "Int" && !isStr {
		// sequence view: seq(append(s, t...)) == seq(s) ++ seq(t)   (part of the memory model's meaning of append)
		tRow0 := sel(hc, app("sl_base", t.T))
		u.assume(eq(app("slice_seq", newRow, app("sl_off", res), newLen),
			app("seq_concat", app("slice_seq", oldRowS, app("sl_off", s.T), app("sl_len", s.T)), app("slice_seq", tRow0, app("sl_off", t.T), app("sl_len", t.T)))))
	}
	if n := staticAppendLen(c); n > 0 && !isStr {
		// append(s, e0, ..., e(n-1)): quantifier-free row update.
		tRow := sel(hc, app("sl_base", t.T))
		take := u.arrTake(es)
		inPlace := oldRowS
		fresh := app(take, oldRowS, app("sl_off", s.T), app("sl_len", s.T))
		for k := 0; k < n; k++ {
			ek := sel(tRow, app("ix", app("sl_off", t.T), fmt.Sprint(k)))
			inPlace = sto(inPlace, fmt.Sprintf("(ix (sl_off %s) (+ (sl_len %s) %d))", s.T, s.T, k), ek)
			fresh = sto(fresh, fmt.Sprintf("(+ (sl_len %s) %d)", s.T, k), ek)
		}
		u.assume(eq(newRow, ite(fits, inPlace, fresh)))
		// element-set view: elems(append(s, e...)) == elems(s) + {e...}
		el := u.sliceElems(es)
		set := app(el, oldRowS, app("sl_off", s.T), app("sl_len", s.T))
		for k := 0; k < n; k++ {
			set = sto(set, sel(tRow, app("ix", app("sl_off", t.T), fmt.Sprint(k))), "true")
		}
		u.assume(eq(app(el, newRow, app("sl_off", res), newLen), set))
		u.heapStoreAt(st, h, resBase, newRow)
		return Val{T: res, S: "Slice"}
	}
	j := fmt.Sprintf("j!%d", u.enc.fresh)
	u.enc.fresh++
	var srcElem string
	if isStr {
		f := u.enc.declFun("str_at", []string{"Str", "Int"}, "Int")
		srcElem = app(f, t.T, fmt.Sprintf("(- %s (+ (sl_off %s) (sl_len %s)))", j, res, s.T))
	} else {
		tRow := sel(hc, app("sl_base", t.T))
		srcElem = sel(tRow, fmt.Sprintf("(ix (sl_off %s) (- %s (+ (sl_off %s) (sl_len %s))))", t.T, j, res, s.T))
		if sl, ok := c.Args[1].(*ssa.Slice); ok && sl.Low != nil {
			// t = y[lo:...]: address t's elements as elements of y (same cells; keeps quantified facts about y applicable)
			if _, isSl := sl.X.Type().Underlying().(*types.Slice); isSl {
				if y, lo := fr.get(sl.X), fr.get(sl.Low); y.T != "" && lo.T != "" {
					srcElem = sel(tRow, fmt.Sprintf("(ix (sl_off %s) (+ %s (- %s (+ (sl_off %s) (sl_len %s)))))", y.T, lo.T, j, res, s.T))
				}
			}
		}
	}
	// index j of the new row: positions [off, off+len(s)) come from s; [off+len(s), off+newLen) from t; others unchanged (in place) or arbitrary (fresh)
	oldAt := sel(oldRowS, fmt.Sprintf("(ix (sl_off %s) (- %s (sl_off %s)))", s.T, j, res))
	inS := fmt.Sprintf("(and (<= (sl_off %s) %s) (< %s (+ (sl_off %s) (sl_len %s))))", res, j, j, res, s.T)
	inT := fmt.Sprintf("(and (<= (+ (sl_off %s) (sl_len %s)) %s) (< %s (+ (sl_off %s) %s)))", res, s.T, j, j, res, newLen)
	u.assume(fmt.Sprintf("(forall ((%s Int)) (! (and (=> %s (= (select %s %s) %s)) (=> %s (= (select %s %s) %s)) (=> (and %s (not %s) (not %s)) (= (select %s %s) (select %s %s)))) :pattern ((select %s %s))))",
		j, inS, newRow, j, oldAt, inT, newRow, j, srcElem, fits, inS, inT, newRow, j, oldRowS, j, newRow, j))
	if !isStr {
		// element-set view: elems(append(s, t...)) == elems(s) + elems(t)
		el := u.sliceElems(es)
		tRow := sel(hc, app("sl_base", t.T))
		x := fmt.Sprintf("x!%d", u.enc.fresh)
		u.enc.fresh++
		en := app(el, newRow, app("sl_off", res), newLen)
		eo := app(el, oldRowS, app("sl_off", s.T), app("sl_len", s.T))
		et := app(el, tRow, app("sl_off", t.T), app("sl_len", t.T))
		u.assume(fmt.Sprintf("(forall ((%s %s)) (! (= (select %s %s) (or (select %s %s) (select %s %s))) :pattern ((select %s %s))))", x, es, en, x, eo, x, et, x, en, x))
	}
	u.heapStoreAt(st, h, resBase, newRow)
	return Val{T: res, S: "Slice"}
}

// staticAppendLen: number of appended elements when the second operand is a freshly built [n]T array slice (variadic call).
func staticAppendLen(c *ssa.CallCommon) int {
	if len(c.Args) != 2 {
		return 0
	}
	sl, ok := c.Args[1].(*ssa.Slice)
	if !ok || sl.Low != nil || sl.High != nil || sl.Max != nil {
		return 0
	}
	al, ok := sl.X.(*ssa.Alloc)
	if !ok {
		return 0
	}
	arr, ok := al.Type().Underlying().(*types.Pointer).Elem().Underlying().(*types.Array)
	if !ok || arr.Len() > 4 {
		return 0
	}
	return int(arr.Len())
}

// arrTake: arr_take(a, o, n)[j] == a[o+j] for 0 <= j < n (a copy of n elements starting at o).
func (u *Unit) arrTake(es string) string {
	name := q("arr_take$" + es)
	if !u.enc.declared[name] {
		asrt := "(Array Int " + es + ")"
		u.enc.raw(name, fmt.Sprintf("(declare-fun %s (%s Int Int) %s)", name, asrt, asrt))
		u.enc.axioms = append(u.enc.axioms, fmt.Sprintf("(forall ((a!t %s) (o!t Int) (n!t Int) (j!t Int)) (! (=> (and (<= 0 j!t) (< j!t n!t)) (= (select (%s a!t o!t n!t) j!t) (select a!t (ix o!t j!t)))) :pattern ((select (%s a!t o!t n!t) j!t))))", asrt, name, name))
	}
	return name
}

// sliceElems: slice_elems$ES(row, off, n) is the set of the elements in the window [off, off+n) of a backing array
// (spec function elems(s)). Axioms: the empty window has no elements; every element of the window is a member.
// append(s, e...) extends it (doAppend).
func (u *Unit) sliceElems(es string) string {
	name := q("slice_elems$" + es)
	if !u.enc.declared[name] {
		asrt := "(Array Int " + es + ")"
		u.enc.raw(name, fmt.Sprintf("(declare-fun %s (%s Int Int) (Array %s Bool))", name, asrt, es))
		u.enc.axioms = append(u.enc.axioms, fmt.Sprintf("(forall ((a!e %s) (o!e Int)) (! (= (%s a!e o!e 0) %s) :pattern ((%s a!e o!e 0))))", asrt, name, u.emptySet(es), name))
		u.enc.axioms = append(u.enc.axioms, fmt.Sprintf("(forall ((a!e %s) (o!e Int) (n!e Int) (j!e Int)) (! (=> (and (<= 0 j!e) (< j!e n!e)) (select (%s a!e o!e n!e) (select a!e (ix o!e j!e)))) :pattern ((%s a!e o!e n!e) (select a!e (ix o!e j!e)))))", asrt, name, name))
	}
	return name
}

// preRegisterGhosts declares the ret()/first() ghosts of every pattern mentioned in the contract, with the result
// sorts of the matching call sites, so that clauses may mention them at points where the call has not happened yet.
func (fr *Frame) preRegisterGhosts() {
	u := fr.u
	pats := fr.ghostPatterns()
	if len(pats) == 0 {
		return
	}
	var visit func(f *ssa.Function, depth int)
	seen := map[*ssa.Function]bool{}
	visit = func(f *ssa.Function, depth int) {
		if f == nil || seen[f] || depth > 3 {
			return
		}
		seen[f] = true
		for _, b := range f.Blocks {
			for _, in := range b.Instrs {
				if _, isSel := in.(*ssa.Select); isSel {
					for _, pat := range pats {
						if matchCallee(pat, "select") {
							for _, g := range []string{fmt.Sprintf("$ret:%s:0", pat), fmt.Sprintf("$first:%s:0", pat)} {
								if _, ok := u.heapSort[g]; !ok {
									u.regHeap(g, "Int")
								}
							}
						}
					}
					continue
				}
				ci, ok := in.(ssa.CallInstruction)
				if !ok {
					continue
				}
				c := ci.Common()
				var name string
				if c.IsInvoke() {
					name = ifaceMethodName(c.Value.Type(), c.Method.Name())
				} else if sc := c.StaticCallee(); sc != nil {
					name = sc.String()
					if inRepo(sc) {
						visit(sc, depth+1)
					}
				} else {
					name = "dynamic:" + valueDesc(c.Value)
				}
				for _, pat := range pats {
					if !matchCallee(pat, name) {
						continue
					}
					res := c.Signature().Results()
					for k := 0; k < res.Len(); k++ {
						srt := u.enc.sortOf(res.At(k).Type())
						for _, g := range []string{fmt.Sprintf("$ret:%s:%d", pat, k), fmt.Sprintf("$first:%s:%d", pat, k)} {
							if _, ok := u.heapSort[g]; !ok {
								u.regHeap(g, srt)
							}
							u.ghostTy[g] = res.At(k).Type()
						}
					}
				}
			}
		}
		for _, an := range f.AnonFuncs {
			visit(an, depth+1)
		}
	}
	visit(fr.fn, 0)
}

// trBoolTol: see trInvariantTol - a clause naming a variable that no longer exists counts as failed, not as an engine error
func trBoolTol(env *Env, c *Clause, dflt string) (t string) {
	defer func() {
		if r := recover(); r != nil {
			if us, ok := r.(unsupported); ok && clauseStale(us.msg) {
				env.u.note("clause cannot be evaluated on this code (%s): %s", us.msg, c.Src)
				t = dflt
				return
			}
			panic(r)
		}
	}()
	return env.trBool(c.E)
}

// clauseStale: the clause refers to something this version of the function does not have (a local variable, a call)
func clauseStale(msg string) bool {
	return strings.Contains(msg, "unknown identifier") || strings.Contains(msg, "no such call seen yet")
}

// patternHit: a callee pattern of an at-call / after-call clause is a substring match; when one pattern matches calls
// to different callees in one function the clause may say more (or assume more) than intended - reported as a note
// ("pattern ... matches several callees") so that it can be reviewed; a trailing $ makes the pattern a suffix match.
func (u *Unit) patternHit(kind, pat, callee string, top *Frame) {
	if u.patHits == nil {
		u.patHits = map[string]map[string]bool{}
	}
	k := kind + " " + pat
	if u.patHits[k] == nil {
		u.patHits[k] = map[string]bool{}
	}
	u.patHits[k][callee] = true
	if len(u.patHits[k]) > 1 {
		var names []string
		for n := range u.patHits[k] {
			names = append(names, n)
		}
		sort.Strings(names)
		u.note("pattern of `%s` in %s matches several callees: %s", k, top.fn, strings.Join(names, ", "))
	}
}
