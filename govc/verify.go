package main

// Building verification units (function under contract, lemma) and solving obligations.

import (
	"bytes"
	"context"
	"encoding/json"
	"fmt"
	"go/types"
	"os"
	"os/exec"
	"path/filepath"
	"runtime/debug"
	"strings"
	"sync"
	"time"

	"golang.org/x/tools/go/ssa"
)

func (cx *Ctx) newUnit(name string) *Unit {
	u := &Unit{cx: cx, enc: NewEnc(), heapSort: map[string]string{}, notes: map[string]bool{}, fnName: name, oblSeq: map[string]int{},
		callsInlined: map[string]bool{}, callsContract: map[string]bool{}, callsTrusted: map[string]bool{}, callsHavoc: map[string]bool{}, callsNoEffect: map[string]bool{}}
	u.heapPtr = map[string]string{}
	u.freshRefs = map[string]bool{}
	u.ghostTy = map[string]types.Type{}
	u.closureSeen = map[string]bool{}
	u.dryRows, u.dryWhole, u.dryFresh = map[string]map[string]bool{}, map[string]bool{}, map[string]bool{}
	u.regHeap("$alloc", "Int")
	u.regHeap("$clock", "Int")
	return u
}

// heapCur override for ghost flags that default to false
func init() {}

type UnitResult struct {
	Unit    *Unit
	Name    string
	Err     string // engine error (unsupported construct) -> unit not verified
	Results []*OblResult
}

// OK: the obligation is discharged. Cover obligations (vacuity checks) fail only when the solver
// proves the hypotheses contradictory; quantified hypotheses often leave them "unknown".
func (r *OblResult) OK() bool {
	if r.Obl.Cover {
		return r.Status == "sat" || r.Status == "unknown" || r.Status == "timeout"
	}
	return r.Status == "unsat"
}

type OblResult struct {
	Obl     *Obl
	Status  string // unsat sat unknown timeout error
	Solver  string
	Seconds float64
	Model   string
	File    string
	Output  string
}

// buildFuncUnit generates the unit; inferred loop-frame candidates that fail their check are
// withdrawn and the unit is regenerated (Houdini), so only justified candidates remain assumed.
func (cx *Ctx) buildFuncUnit(fn *ssa.Function, fc *FuncContract) (u *Unit, err error) {
	bl := map[string]bool{}
	hintMu.Lock()
	for _, k := range houdiniHints[fn.String()] {
		bl[k] = true
	}
	hintMu.Unlock()
	for attempt := 0; attempt < 8; attempt++ {
		u, err = cx.buildFuncUnitOnce(fn, fc, bl)
		if err != nil || u == nil || len(u.autoFailed) == 0 {
			break
		}
		for _, k := range u.autoFailed {
			bl[k] = true
		}
	}
	hintMu.Lock()
	houdiniUsed[fn.String()] = sortedKeys(bl)
	hintMu.Unlock()
	return u, err
}

// Houdini hints: candidates known (from an earlier run) to fail their check are not tried again.
// Hints only save time: every candidate that is assumed is still checked on every run.
var (
	hintMu       sync.Mutex
	houdiniHints = map[string][]string{}
	houdiniUsed  = map[string][]string{}
)

func loadHoudiniHints(path string) {
	b, err := os.ReadFile(path)
	if err == nil {
		json.Unmarshal(b, &houdiniHints)
	}
}

func saveHoudiniHints(path string) {
	hintMu.Lock()
	defer hintMu.Unlock()
	all := map[string][]string{}
	for k, v := range houdiniHints {
		all[k] = v
	}
	for k, v := range houdiniUsed {
		if len(v) > 0 {
			all[k] = v
		} else {
			delete(all, k)
		}
	}
	b, _ := json.MarshalIndent(all, "", " ")
	os.WriteFile(path, append(b, '\n'), 0o644)
}

// quickCheck decides one obligation synchronously (used for candidate invariants during generation).
func (u *Unit) quickCheck(o *Obl) bool {
	dir := filepath.Join(os.TempDir(), "govc-quick")
	os.MkdirAll(dir, 0o755)
	f, err := os.CreateTemp(dir, "q*.smt2")
	if err != nil {
		return false
	}
	defer os.Remove(f.Name())
	f.WriteString(u.query(o, false, nil))
	f.Close()
	// The budget follows the speed of the machine (houdiniBudget is derived from the time the package load took: 3 s on
	// the development machine, more on a slower or loaded one). A fixed 3 s budget withdrew candidates on a slow fresh
	// sandbox and turned into a false alarm on an unchanged tree; racing all solvers with long budgets instead made a
	// check of a *changed* tree take minutes (every genuinely unprovable candidate cost the full budget).
	st, _, _ := runSolver(context.Background(), solvers[0], f.Name(), houdiniBudget, 0)
	if st == "unsat" {
		return true
	}
	if st == "timeout" && houdiniBudget < 10 {
		// one more look by the other two solvers with the same budget before giving the candidate up
		for _, sp := range solvers[1:] {
			if s2, _, _ := runSolver(context.Background(), sp, f.Name(), houdiniBudget, 0); s2 == "unsat" {
				return true
			} else if s2 == "sat" {
				return false
			}
		}
	}
	return false
}

// houdiniBudget: seconds a loop-frame candidate may take; set by `check` from the package load time.
var houdiniBudget = 3

func (cx *Ctx) buildFuncUnitOnce(fn *ssa.Function, fc *FuncContract, blacklist map[string]bool) (u *Unit, err error) {
	name := fn.String()
	u = cx.newUnit(name)
	u.blacklist = blacklist
	defer func() {
		if r := recover(); r != nil {
			if us, ok := r.(unsupported); ok {
				err = fmt.Errorf("unsupported: %s", us.msg)
				return
			}
			err = fmt.Errorf("engine panic: %v\n%s", r, debug.Stack())
		}
	}()
	st := &State{guard: "true", heaps: map[string]string{}}
	u.assume(app(">=", u.heapCur(st, "$alloc"), "0"))
	fr := u.newFrame(fn, nil)
	fr.top = true
	fr.fc = fc
	for pi, p := range fn.Params {
		pname := p.Name()
		if pname == "_" || pname == "" {
			pname = fmt.Sprintf("_p%d", pi)
		}
		v := fr.havocParam(st, p.Type(), pname)
		if isTime(p.Type()) {
			v.Zone = u.enc.declConst("zone$"+pname, "Int")
		}
		fr.vals[p] = v
		if v.T != "" {
			u.inputs = append(u.inputs, ModelVar{Name: p.Name(), Term: v.T, Ty: p.Type()})
		}
	}
	for _, p := range fn.FreeVars {
		v := fr.havocParam(st, p.Type(), "fv$"+p.Name())
		fr.vals[p] = v
	}
	fr.entry = st.clone()
	fr.preRegisterGhosts()
	env := fr.specEnv(st, st)
	for _, c := range fc.Requires {
		u.assume(env.trBool(c.E))
	}
	for _, c := range fc.Assumes {
		u.assume(env.trBool(c.E))
		u.note("assumed input invariant of %s (not established by callers): %s", fn.String(), c.Src)
	}
	// vacuity: requires satisfiable
	cov := u.oblige(st, "cover", fr.fnLabel()+"/cover:requires", "true", fn.Pos(), nil, "preconditions are satisfiable")
	cov.Cover = true
	out, res := fr.run(st)
	// exit reachable
	cov2 := u.oblige(out, "cover", fr.fnLabel()+"/cover:exit", "true", fn.Pos(), nil, "some return is reachable under the preconditions")
	cov2.Cover = true
	penv := fr.specEnv(out, fr.entry)
	penv.tpFrame = fr // (locals such as rangeindex<k> and named results stay visible in postconditions)
	penv.result = res
	bindResults(penv, fn.Signature, res)
	for i, c0 := range fc.Ensures {
		for _, pc := range fr.splitClause(c0) {
			c := pc.c
			t := trBoolTol(penv, c, "false")
			id := fmt.Sprintf("%s/post:%s%s", fr.fnLabel(), clauseName(c0, i), pc.suffix)
			if c.Region != nil {
				// known-finding scoping: the clause must discharge outside the region; inside it is expected to fail
				renv := fr.specEnv(out, fr.entry)
				renv.fr = nil
				bindResults(renv, fn.Signature, res)
				reg := renv.trBool(c.Region)
				o := u.oblige(out, "post", id, t, fn.Pos(), c0, "postcondition (outside finding region): "+c.Src)
				o.Extra = []string{not(reg)}
				o2 := u.oblige(out, "post", id+"@finding", t, fn.Pos(), c0, "postcondition (inside finding region): "+c.Src)
				o2.Extra = []string{reg}
				continue
			}
			u.oblige(out, "post", id, t, fn.Pos(), c0, "postcondition: "+c.Src)
		}
	}
	if fc.HasAssigns {
		fr.frameObligations(st, out, fc)
	}
	// an `at call` clause whose pattern matched no call site generated nothing: say so instead of passing silently
	// (a misspelt pattern in a new contract, or a call that a change removed)
	for i, c := range fc.AtCalls {
		if len(u.patHits["at call "+c.Callee]) == 0 {
			u.oblige(out, "at", fmt.Sprintf("%s/at:%s.unmatched", fr.fnLabel(), clauseName(c, i)), "false", fn.Pos(), c,
				"`at call "+c.Callee+"` matches no call site of this function: "+c.Src)
		}
	}
	u.checkPendingAuto()
	return u, nil
}

// checkPendingAuto decides the inferred loop-frame candidates of this build concurrently; the ones that do not
// discharge quickly are dropped from the obligations and reported in autoFailed (the unit is then rebuilt without them).
func (u *Unit) checkPendingAuto() {
	if len(u.pendingAuto) == 0 {
		return
	}
	failed := make([]bool, len(u.pendingAuto))
	var wg sync.WaitGroup
	sem := make(chan struct{}, 16)
	for i, pa := range u.pendingAuto {
		wg.Add(1)
		sem <- struct{}{}
		go func(i int, o *Obl) {
			defer wg.Done()
			defer func() { <-sem }()
			failed[i] = !u.quickCheck(o)
		}(i, pa.o)
	}
	wg.Wait()
	drop := map[*Obl]bool{}
	seen := map[string]bool{}
	for i, pa := range u.pendingAuto {
		if failed[i] {
			drop[pa.o] = true
			if !seen[pa.key] {
				seen[pa.key] = true
				u.autoFailed = append(u.autoFailed, pa.key)
			}
		}
	}
	if len(drop) > 0 {
		kept := u.obls[:0]
		for _, o := range u.obls {
			if !drop[o] {
				kept = append(kept, o)
			}
		}
		u.obls = kept
	}
	u.pendingAuto = nil
}

func (fr *Frame) havocParam(st *State, t types.Type, name string) Val {
	u := fr.u
	s := u.enc.sortOf(t)
	c := u.enc.declConst(name, s)
	v := Val{T: c, S: s, Ty: t}
	u.typeFacts(v)
	u.loadedFacts(st, v)
	return v
}

// frameObligations: every heap touched but not covered by assigns is unchanged on pre-existing objects.
func (fr *Frame) frameObligations(entry, out *State, fc *FuncContract) {
	u := fr.u
	// compute the havoc that a caller would apply, then require: actual exit heap == havoced-entry heap for some choice.
	// Simplification: for each heap whose term changed, if no designator mentions it, require equality on old objects.
	covered := map[string]bool{}
	probe := entry.clone()
	env := fr.specEnv(entry, entry)
	u.dry++
	func() {
		defer func() {
			if r := recover(); r != nil {
				u.dry--
				panic(r)
			}
		}()
		for _, a := range fc.Assigns {
			before := map[string]string{}
			for k, v := range probe.heaps {
				before[k] = v
			}
			ep := probe.epoch
			u.havocDesignator(env, probe, a)
			if probe.epoch != ep {
				covered["*"] = true
			}
			for k, v := range probe.heaps {
				if before[k] != v {
					covered[k] = true
				}
			}
		}
	}()
	u.dry--
	if covered["*"] {
		return
	}
	if out.epoch != entry.epoch {
		u.oblige(out, "frame", fr.fnLabel()+"/frame:havoc", "false", fr.fn.Pos(), nil, "function havocs the whole heap (uncontracted in-repo call) but declares a frame")
		return
	}
	for _, k := range sortedKeys(out.heaps) {
		if strings.HasPrefix(k, "$") || strings.HasPrefix(k, "L$") {
			continue
		}
		if covered[k] {
			continue // partially covered heaps: fine-grained frame is the postcondition's job
		}
		a, b := u.heapCur(entry, k), out.heaps[k]
		if a == b {
			continue
		}
		srt := u.heapSort[k]
		if !strings.HasPrefix(srt, "(Array Int ") {
			continue
		}
		r := "r!frame"
		cond := fmt.Sprintf("(forall ((%s Int)) (=> (and (<= 0 %s) (<= %s %s)) (= (select %s %s) (select %s %s))))", r, r, r, u.heapCur(entry, "$alloc"), a, r, b, r)
		u.oblige(out, "frame", fr.fnLabel()+"/frame:"+k, cond, fr.fn.Pos(), nil, "heap "+k+" unchanged on pre-existing objects (not in assigns)")
	}
}

func (cx *Ctx) buildLemmaUnit(l *Lemma) (u *Unit, err error) {
	u = cx.newUnit("lemma " + l.Name)
	defer func() {
		if r := recover(); r != nil {
			if us, ok := r.(unsupported); ok {
				err = fmt.Errorf("unsupported: %s", us.msg)
				return
			}
			err = fmt.Errorf("engine panic: %v\n%s", r, debug.Stack())
		}
	}()
	st := &State{guard: "true", heaps: map[string]string{}}
	env := &Env{u: u, vars: map[string]Val{}, cur: st, old: st, pkg: cx.typesPkg(l.PkgPath)}
	t := env.trBool(l.C.E)
	u.oblige(st, "lemma", "lemma:"+l.Name, t, 0, l.C, "lemma: "+l.C.Src)
	return u, nil
}

// axioms from contracts (definitional axioms of recursive spec functions) are added to every unit.
func (u *Unit) contractAxioms() []string {
	var out []string
	st := &State{guard: "true", heaps: map[string]string{}}
	for _, l := range u.cx.cs.Lemmas {
		if !l.Axiom {
			continue
		}
		func() {
			defer func() { recover() }()
			env := &Env{u: u, vars: map[string]Val{}, cur: st, old: st, pkg: u.cx.typesPkg(l.PkgPath)}
			out = append(out, env.trBool(l.C.E))
		}()
	}
	return out
}

// ---------------------------------------------------------------------------
// SMT-LIB output

func (u *Unit) query(o *Obl, withModel bool, extraAxioms []string) string {
	var b bytes.Buffer
	if withModel {
		b.WriteString("(set-option :produce-models true)\n")
	}
	b.WriteString("(set-logic ALL)\n")
	for _, d := range u.enc.decls {
		b.WriteString(d)
		b.WriteByte('\n')
	}
	for _, a := range u.enc.axioms {
		fmt.Fprintf(&b, "(assert %s)\n", a)
	}
	for _, a := range extraAxioms {
		fmt.Fprintf(&b, "(assert %s)\n", a)
	}
	for _, a := range u.enc.strFacts() {
		fmt.Fprintf(&b, "(assert %s)\n", a)
	}
	n := o.NAssume
	if n > len(u.assumes) {
		n = len(u.assumes)
	}
	for _, a := range u.assumes[:n] {
		fmt.Fprintf(&b, "(assert %s)\n", a)
	}
	for _, a := range o.Extra {
		fmt.Fprintf(&b, "(assert %s)\n", a)
	}
	fmt.Fprintf(&b, "(assert %s)\n", o.Guard)
	if !o.Cover {
		fmt.Fprintf(&b, "(assert (not %s))\n", o.Cond)
	}
	b.WriteString("(check-sat)\n")
	if withModel && len(u.inputs) > 0 {
		var ts []string
		for _, in := range u.inputs {
			ts = append(ts, in.Term)
		}
		fmt.Fprintf(&b, "(get-value (%s))\n", strings.Join(ts, " "))
	}
	return b.String()
}

type solverSpec struct {
	name string
	args func(file string, timeoutS int, seed int) []string
}

var solvers = []solverSpec{
	{"z3-5.1.0", func(f string, t, seed int) []string {
		return []string{"z3-new", fmt.Sprintf("-T:%d", t), fmt.Sprintf("smt.random_seed=%d", seed), f}
	}},
	{"z3-4.8.12", func(f string, t, seed int) []string {
		return []string{"z3", fmt.Sprintf("-T:%d", t), fmt.Sprintf("smt.random_seed=%d", seed), f}
	}},
	{"cvc5-1.0", func(f string, t, seed int) []string {
		return []string{"cvc5", fmt.Sprintf("--tlimit=%d", t*1000), "--seed", fmt.Sprint(seed), f}
	}},
}

func runSolver(ctx context.Context, sp solverSpec, file string, timeoutS, seed int) (status, out string, secs float64) {
	args := sp.args(file, timeoutS, seed)
	t0 := time.Now()
	cctx, cancel := context.WithTimeout(ctx, time.Duration(timeoutS+2)*time.Second)
	defer cancel()
	cmd := exec.CommandContext(cctx, args[0], args[1:]...)
	var ob bytes.Buffer
	cmd.Stdout = &ob
	cmd.Stderr = &ob
	_ = cmd.Run()
	secs = time.Since(t0).Seconds()
	out = ob.String()
	// drop solver warnings in front of the verdict
	for strings.HasPrefix(out, "WARNING") || strings.HasPrefix(out, "(warning") {
		if i := strings.Index(out, "\n"); i >= 0 {
			out = out[i+1:]
		} else {
			break
		}
	}
	first := strings.TrimSpace(strings.SplitN(out, "\n", 2)[0])
	switch first {
	case "unsat", "sat", "unknown":
		return first, out, secs
	case "timeout":
		return "timeout", out, secs
	}
	if cctx.Err() != nil {
		return "timeout", out, secs
	}
	if strings.Contains(out, "timeout") || strings.Contains(out, "interrupted") {
		return "timeout", out, secs
	}
	return "error", out, secs
}

// solveObl: quick attempt with z3-new; on indecision race all three with the full timeout.
func (u *Unit) solveObl(o *Obl, outDir string, timeoutS int, seed int, axioms []string) *OblResult {
	file := filepath.Join(outDir, sanitizeFile(o.ID)+".smt2")
	qtext := u.query(o, true, axioms)
	if err := os.WriteFile(file, []byte(qtext), 0o644); err != nil {
		return &OblResult{Obl: o, Status: "error", Output: err.Error()}
	}
	want := "unsat"
	if o.Cover {
		want = "sat"
	}
	total := 0.0
	st, out, secs := runSolver(context.Background(), solvers[0], file, 3, seed)
	total += secs
	if st == "sat" || st == "unsat" {
		return &OblResult{Obl: o, Status: st, Solver: solvers[0].name, Seconds: total, Output: out, File: file, Model: modelOf(st, out)}
	}
	if st == "error" && strings.Contains(out, "(error \"line") {
		// z3 rejected the query text: an engine bug, never to be mistaken for "undecided"
		return &OblResult{Obl: o, Status: "error", Solver: solvers[0].name, Seconds: total, Output: out, File: file}
	}
	if o.Cover {
		// vacuity checks only fail on "unsat"; an undecided cover is not worth a solver race
		if st != "unknown" && st != "timeout" {
			st = "unknown"
		}
		return &OblResult{Obl: o, Status: st, Solver: solvers[0].name, Seconds: total, Output: out, File: file}
	}
	_ = want
	// race
	type r struct {
		st, out, name string
		secs      float64
	}
	ctx, cancel := context.WithCancel(context.Background())
	defer cancel()
	ch := make(chan r, len(solvers))
	for _, sp := range solvers {
		go func(sp solverSpec) {
			s, o2, sec := runSolver(ctx, sp, file, timeoutS, seed)
			ch <- r{s, o2, sp.name, sec}
		}(sp)
	}
	best := r{st: "timeout"}
	for range solvers {
		x := <-ch
		if x.st == "sat" || x.st == "unsat" {
			cancel()
			return &OblResult{Obl: o, Status: x.st, Solver: x.name, Seconds: total + x.secs, Output: x.out, File: file, Model: modelOf(x.st, x.out)}
		}
		rank := map[string]int{"unknown": 3, "timeout": 2, "error": 1}
		if best.name == "" || rank[x.st] > rank[best.st] {
			best = x
		}
	}
	if best.st == "timeout" && timeoutS < 60 && houdiniBudget > 4 {
		// (only on a machine that the load-time calibration found slow: on a machine of normal speed nothing that is
		// claimed comes near the budget, and the extra race only multiplies the time a changed tree takes)
		// nobody gave up, everybody ran out of time: on a loaded machine that says nothing about the obligation.
		// One more race with a four-fold budget before the obligation is reported as not discharged.
		r2 := u.solveOblBudget(o, file, timeoutS*4, seed)
		if r2 != nil {
			r2.Seconds += total + best.secs
			return r2
		}
	}
	return &OblResult{Obl: o, Status: best.st, Solver: best.name, Seconds: total + best.secs, Output: best.out, File: file}
}

// solveOblBudget: one race of all solvers on an already written query with the given budget; nil if undecided.
func (u *Unit) solveOblBudget(o *Obl, file string, timeoutS, seed int) *OblResult {
	type r struct {
		st, out, name string
		secs          float64
	}
	ctx, cancel := context.WithCancel(context.Background())
	defer cancel()
	ch := make(chan r, len(solvers))
	for _, sp := range solvers {
		go func(sp solverSpec) {
			s, o2, sec := runSolver(ctx, sp, file, timeoutS, seed)
			ch <- r{s, o2, sp.name, sec}
		}(sp)
	}
	for range solvers {
		x := <-ch
		if x.st == "sat" || x.st == "unsat" {
			return &OblResult{Obl: o, Status: x.st, Solver: x.name, Seconds: x.secs, Output: x.out, File: file, Model: modelOf(x.st, x.out)}
		}
	}
	return nil
}

func modelOf(st, out string) string {
	if st != "sat" {
		return ""
	}
	parts := strings.SplitN(out, "\n", 2)
	if len(parts) == 2 {
		return strings.TrimSpace(parts[1])
	}
	return ""
}

func sanitizeFile(s string) string {
	var b strings.Builder
	for _, c := range s {
		if c >= 'a' && c <= 'z' || c >= 'A' && c <= 'Z' || c >= '0' && c <= '9' || c == '.' || c == '-' || c == '_' {
			b.WriteRune(c)
		} else {
			b.WriteByte('_')
		}
	}
	return b.String()
}

// solveAll runs all obligations of the units with a worker pool.
func solveAll(units []*UnitResult, outDir string, timeoutS, seed, workers int) {
	type job struct {
		ur *UnitResult
		o  *Obl
		ax []string
		i  int
	}
	var jobs []job
	for _, ur := range units {
		if ur.Err != "" || ur.Unit == nil {
			continue
		}
		ax := ur.Unit.contractAxioms()
		ur.Results = make([]*OblResult, len(ur.Unit.obls))
		for i, o := range ur.Unit.obls {
			jobs = append(jobs, job{ur, o, ax, i})
		}
	}
	var wg sync.WaitGroup
	ch := make(chan job)
	for w := 0; w < workers; w++ {
		wg.Add(1)
		go func() {
			defer wg.Done()
			for j := range ch {
				if j.o.Cond == "true" && !j.o.Cover {
					j.ur.Results[j.i] = &OblResult{Obl: j.o, Status: "unsat", Solver: "trivial"}
					continue
				}
				dir := filepath.Join(outDir, sanitizeFile(j.ur.Name))
				os.MkdirAll(dir, 0o755)
				j.ur.Results[j.i] = j.ur.Unit.solveObl(j.o, dir, timeoutS, seed, j.ax)
			}
		}()
	}
	for _, j := range jobs {
		ch <- j
	}
	close(ch)
	wg.Wait()
}
