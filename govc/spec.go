package main

// Contract language: lexer, parser, AST.

import (
	"fmt"
	"strings"
	"unicode"
)

type Expr interface{ String() string }

type (
	EIdent  struct{ Name string }
	EInt    struct{ V string }
	EStr    struct{ V string }
	EBool   struct{ V bool }
	ENil    struct{}
	EUnary  struct{ Op string; X Expr }
	EBinary struct{ Op string; X, Y Expr }
	ECond   struct{ C, A, B Expr }
	ECall   struct{ Fn string; Args []Expr }
	EMethod struct{ X Expr; Name string; Args []Expr }
	EField  struct{ X Expr; Name string }
	EIndex  struct{ X, I Expr }
	EQuant  struct {
		Forall bool
		Vars   []QVar
		Body   Expr
		Pats   [][]Expr
	}
	EOld struct{ X Expr }
	ELet struct {
		Name string
		V, B Expr
	}
)

type QVar struct{ Name, Type string }

func (e *EIdent) String() string  { return e.Name }
func (e *EInt) String() string    { return e.V }
func (e *EStr) String() string    { return fmt.Sprintf("%q", e.V) }
func (e *EBool) String() string   { return fmt.Sprint(e.V) }
func (e *ENil) String() string    { return "nil" }
func (e *EUnary) String() string  { return e.Op + e.X.String() }
func (e *EBinary) String() string { return "(" + e.X.String() + " " + e.Op + " " + e.Y.String() + ")" }
func (e *ECond) String() string {
	return "(" + e.C.String() + " ? " + e.A.String() + " : " + e.B.String() + ")"
}
func (e *ECall) String() string   { return e.Fn + "(" + joinExprs(e.Args) + ")" }
func (e *EMethod) String() string { return e.X.String() + "." + e.Name + "(" + joinExprs(e.Args) + ")" }
func (e *EField) String() string  { return e.X.String() + "." + e.Name }
func (e *EIndex) String() string  { return e.X.String() + "[" + e.I.String() + "]" }
func (e *EOld) String() string    { return "old(" + e.X.String() + ")" }
func (e *ELet) String() string {
	return "let " + e.Name + " = " + e.V.String() + " in " + e.B.String()
}
func (e *EQuant) String() string {
	k := "exists"
	if e.Forall {
		k = "forall"
	}
	var vs []string
	for _, v := range e.Vars {
		vs = append(vs, v.Name+" "+v.Type)
	}
	return "(" + k + " " + strings.Join(vs, ", ") + " :: " + e.Body.String() + ")"
}
func joinExprs(xs []Expr) string {
	var s []string
	for _, x := range xs {
		s = append(s, x.String())
	}
	return strings.Join(s, ", ")
}

type tok struct {
	k string // "id","int","str","op","eof"
	s string
}

func lex(src string) ([]tok, error) {
	var out []tok
	i := 0
	for i < len(src) {
		c := rune(src[i])
		switch {
		case unicode.IsSpace(c):
			i++
		case unicode.IsLetter(c) || c == '_' || c == '$' || c == '#':
			j := i + 1
			for j < len(src) && (unicode.IsLetter(rune(src[j])) || unicode.IsDigit(rune(src[j])) || src[j] == '_' || src[j] == '$' || src[j] == '#') {
				j++
			}
			out = append(out, tok{"id", src[i:j]})
			i = j
		case unicode.IsDigit(c):
			j := i + 1
			for j < len(src) && (unicode.IsDigit(rune(src[j])) || src[j] == '_') {
				j++
			}
			out = append(out, tok{"int", strings.ReplaceAll(src[i:j], "_", "")})
			i = j
		case c == '"':
			j := i + 1
			var b strings.Builder
			for j < len(src) && src[j] != '"' {
				if src[j] == '\\' && j+1 < len(src) {
					j++
					switch src[j] {
					case 'n':
						b.WriteByte('\n')
					case 't':
						b.WriteByte('\t')
					default:
						b.WriteByte(src[j])
					}
				} else {
					b.WriteByte(src[j])
				}
				j++
			}
			if j >= len(src) {
				return nil, fmt.Errorf("unterminated string")
			}
			out = append(out, tok{"str", b.String()})
			i = j + 1
		default:
			ops := []string{"<==>", "==>", "::", "==", "!=", "<=", ">=", "&&", "||", "<", ">", "+", "-", "*", "/", "%", "!", "(", ")", "[", "]", "{", "}", ",", ".", "?", ":", "="}
			matched := false
			for _, op := range ops {
				if strings.HasPrefix(src[i:], op) {
					out = append(out, tok{"op", op})
					i += len(op)
					matched = true
					break
				}
			}
			if !matched {
				return nil, fmt.Errorf("bad character %q at %d in %q", c, i, src)
			}
		}
	}
	out = append(out, tok{"eof", ""})
	return out, nil
}

type parser struct {
	toks []tok
	p    int
	src  string
}

func ParseExpr(src string) (e Expr, err error) {
	toks, err := lex(src)
	if err != nil {
		return nil, err
	}
	p := &parser{toks: toks, src: src}
	defer func() {
		if r := recover(); r != nil {
			if pe, ok := r.(parseErr); ok {
				err = fmt.Errorf("%s (in %q)", string(pe), src)
				return
			}
			panic(r)
		}
	}()
	e = p.expr()
	if p.peek().k != "eof" {
		p.fail("unexpected %q", p.peek().s)
	}
	return e, nil
}

type parseErr string

func (p *parser) fail(f string, a ...any) { panic(parseErr(fmt.Sprintf(f, a...))) }
func (p *parser) peek() tok               { return p.toks[p.p] }
func (p *parser) next() tok               { t := p.toks[p.p]; p.p++; return t }
func (p *parser) isOp(s string) bool      { t := p.peek(); return t.k == "op" && t.s == s }
func (p *parser) isKw(s string) bool      { t := p.peek(); return t.k == "id" && t.s == s }
func (p *parser) expectOp(s string) {
	if !p.isOp(s) {
		p.fail("expected %q, got %q", s, p.peek().s)
	}
	p.next()
}

// precedence climbing:  <==>  <  ==>  <  ?:  <  ||  <  &&  <  cmp  <  + -  <  * / %  < unary < postfix
func (p *parser) expr() Expr {
	if p.isKw("forall") || p.isKw("exists") {
		return p.quant()
	}
	if p.isKw("let") {
		p.next()
		name := p.next().s
		p.expectOp("=")
		v := p.add() // no comparison / 'in' at top level of a let value (parenthesise if needed)
		if !p.isKw("in") {
			p.fail("expected 'in'")
		}
		p.next()
		b := p.expr()
		return &ELet{name, v, b}
	}
	return p.iff()
}

func (p *parser) quant() Expr {
	fa := p.next().s == "forall"
	var vars []QVar
	for {
		name := p.next().s
		if p.isOp(":") {
			p.next()
		}
		typ := p.typeText()
		vars = append(vars, QVar{name, typ})
		if p.isOp(",") {
			p.next()
			continue
		}
		break
	}
	p.expectOp("::")
	var pats [][]Expr
	for p.isOp("{") {
		p.next()
		var pat []Expr
		for {
			pat = append(pat, p.expr())
			if p.isOp(",") {
				p.next()
				continue
			}
			break
		}
		p.expectOp("}")
		pats = append(pats, pat)
	}
	body := p.expr()
	return &EQuant{Forall: fa, Vars: vars, Body: body, Pats: pats}
}

// typeText reads a Go type up to ',' or '::' at depth 0.
func (p *parser) typeText() string {
	var b strings.Builder
	depth := 0
	for {
		t := p.peek()
		if t.k == "eof" {
			break
		}
		if depth == 0 && t.k == "op" && (t.s == "," || t.s == "::" || t.s == ")" || t.s == "=") {
			break
		}
		if t.k == "op" && (t.s == "[" || t.s == "(" || t.s == "{") {
			depth++
		}
		if t.k == "op" && (t.s == "]" || t.s == ")" || t.s == "}") {
			depth--
		}
		if t.k == "id" && b.Len() > 0 {
			last := b.String()[b.Len()-1]
			if unicode.IsLetter(rune(last)) || unicode.IsDigit(rune(last)) {
				b.WriteByte(' ')
			}
		}
		b.WriteString(t.s)
		p.next()
	}
	return b.String()
}

func (p *parser) iff() Expr {
	x := p.imp()
	for p.isOp("<==>") {
		p.next()
		y := p.imp()
		x = &EBinary{"<==>", x, y}
	}
	return x
}
func (p *parser) imp() Expr {
	x := p.cond()
	if p.isOp("==>") {
		p.next()
		var y Expr
		if p.isKw("forall") || p.isKw("exists") || p.isKw("let") {
			y = p.expr()
		} else {
			y = p.imp()
		}
		return &EBinary{"==>", x, y}
	}
	return x
}
func (p *parser) cond() Expr {
	c := p.lor()
	if p.isOp("?") {
		p.next()
		a := p.expr()
		p.expectOp(":")
		b := p.expr()
		return &ECond{c, a, b}
	}
	return c
}
func (p *parser) lor() Expr {
	x := p.land()
	for p.isOp("||") {
		p.next()
		var y Expr
		if p.isKw("forall") || p.isKw("exists") {
			y = p.expr()
		} else {
			y = p.land()
		}
		x = &EBinary{"||", x, y}
	}
	return x
}
func (p *parser) land() Expr {
	x := p.cmp()
	for p.isOp("&&") {
		p.next()
		var y Expr
		if p.isKw("forall") || p.isKw("exists") {
			y = p.expr()
		} else {
			y = p.cmp()
		}
		x = &EBinary{"&&", x, y}
	}
	return x
}
func (p *parser) cmp() Expr {
	x := p.add()
	for {
		t := p.peek()
		if t.k == "op" && (t.s == "==" || t.s == "!=" || t.s == "<" || t.s == "<=" || t.s == ">" || t.s == ">=") {
			p.next()
			y := p.add()
			x = &EBinary{t.s, x, y}
			continue
		}
		if t.k == "id" && t.s == "in" {
			p.next()
			y := p.add()
			x = &EBinary{"in", x, y}
			continue
		}
		return x
	}
}
func (p *parser) add() Expr {
	x := p.mul()
	for p.isOp("+") || p.isOp("-") {
		op := p.next().s
		y := p.mul()
		x = &EBinary{op, x, y}
	}
	return x
}
func (p *parser) mul() Expr {
	x := p.unary()
	for p.isOp("*") || p.isOp("/") || p.isOp("%") {
		op := p.next().s
		y := p.unary()
		x = &EBinary{op, x, y}
	}
	return x
}
func (p *parser) unary() Expr {
	if p.isOp("!") || p.isOp("-") {
		op := p.next().s
		x := p.unary()
		return &EUnary{op, x}
	}
	return p.postfix()
}
func (p *parser) postfix() Expr {
	x := p.primary()
	for {
		switch {
		case p.isOp("."):
			p.next()
			name := p.next().s
			if p.isOp("(") {
				args := p.args()
				x = &EMethod{x, name, args}
			} else {
				x = &EField{x, name}
			}
		case p.isOp("["):
			p.next()
			i := p.expr()
			p.expectOp("]")
			x = &EIndex{x, i}
		default:
			return x
		}
	}
}
func (p *parser) args() []Expr {
	p.expectOp("(")
	var args []Expr
	if p.isOp(")") {
		p.next()
		return args
	}
	for {
		args = append(args, p.expr())
		if p.isOp(",") {
			p.next()
			continue
		}
		break
	}
	p.expectOp(")")
	return args
}
func (p *parser) primary() Expr {
	t := p.next()
	switch t.k {
	case "int":
		return &EInt{t.s}
	case "str":
		return &EStr{t.s}
	case "id":
		switch t.s {
		case "true":
			return &EBool{true}
		case "false":
			return &EBool{false}
		case "nil":
			return &ENil{}
		case "old":
			p.expectOp("(")
			x := p.expr()
			p.expectOp(")")
			return &EOld{x}
		case "forall", "exists":
			p.p--
			return p.quant()
		}
		if p.isOp("(") {
			if t.s == "typeis" || t.s == "unbox" {
				// second argument is a Go type, e.g. typeis(x, *DedupStage)
				p.expectOp("(")
				x := p.expr()
				p.expectOp(",")
				var b strings.Builder
				depth := 0
				for {
					tk := p.peek()
					if tk.k == "eof" {
						break
					}
					if tk.k == "op" && tk.s == ")" && depth == 0 {
						break
					}
					if tk.k == "op" && (tk.s == "(" || tk.s == "[") {
						depth++
					}
					if tk.k == "op" && (tk.s == ")" || tk.s == "]") {
						depth--
					}
					b.WriteString(tk.s)
					p.next()
				}
				p.expectOp(")")
				return &ECall{t.s, []Expr{x, &EIdent{b.String()}}}
			}
			args := p.args()
			return &ECall{t.s, args}
		}
		return &EIdent{t.s}
	case "op":
		if t.s == "(" {
			x := p.expr()
			p.expectOp(")")
			return x
		}
	}
	p.fail("unexpected %q", t.s)
	return nil
}

// substExpr replaces free identifiers by expressions (no capture handling beyond skipping bound names).
func substExpr(e Expr, m map[string]Expr) Expr {
	switch x := e.(type) {
	case *EIdent:
		if r, ok := m[x.Name]; ok {
			return r
		}
		return x
	case *EUnary:
		return &EUnary{x.Op, substExpr(x.X, m)}
	case *EBinary:
		return &EBinary{x.Op, substExpr(x.X, m), substExpr(x.Y, m)}
	case *ECond:
		return &ECond{substExpr(x.C, m), substExpr(x.A, m), substExpr(x.B, m)}
	case *ECall:
		n := &ECall{Fn: x.Fn}
		for _, a := range x.Args {
			n.Args = append(n.Args, substExpr(a, m))
		}
		return n
	case *EMethod:
		n := &EMethod{X: substExpr(x.X, m), Name: x.Name}
		for _, a := range x.Args {
			n.Args = append(n.Args, substExpr(a, m))
		}
		return n
	case *EField:
		return &EField{substExpr(x.X, m), x.Name}
	case *EIndex:
		return &EIndex{substExpr(x.X, m), substExpr(x.I, m)}
	case *EOld:
		return &EOld{substExpr(x.X, m)}
	case *ELet:
		m2 := map[string]Expr{}
		for k, v := range m {
			if k != x.Name {
				m2[k] = v
			}
		}
		return &ELet{x.Name, substExpr(x.V, m), substExpr(x.B, m2)}
	case *EQuant:
		m2 := map[string]Expr{}
		for k, v := range m {
			m2[k] = v
		}
		for _, v := range x.Vars {
			delete(m2, v.Name)
		}
		n := &EQuant{Forall: x.Forall, Vars: x.Vars, Body: substExpr(x.Body, m2)}
		for _, p := range x.Pats {
			var np []Expr
			for _, pe := range p {
				np = append(np, substExpr(pe, m2))
			}
			n.Pats = append(n.Pats, np)
		}
		return n
	}
	return e
}

// splitConj splits an expression into top-level conjuncts, looking through non-recursive spec functions
// whose arguments are plain identifiers/field paths (so substitution is capture-free).
func splitConjPkg(e Expr, cs *Contracts, pkg string) []Expr {
	return splitConj(e, cs, 0, pkg)
}

// (the package is a parameter, not package-level state: units are built concurrently)
func splitConj(e Expr, cs *Contracts, depth int, curSplitPkg string) []Expr {
	switch x := e.(type) {
	case *EBinary:
		if x.Op == "&&" {
			return append(splitConj(x.X, cs, depth, curSplitPkg), splitConj(x.Y, cs, depth, curSplitPkg)...)
		}
	case *ECall:
		if sf, ok := cs.Specs[x.Fn]; ok && depth < 4 && len(sf.Params) == len(x.Args) && sf.PkgPath == curSplitPkg {
			if _, isConj := sf.Body.(*EBinary); isConj && sf.Body.(*EBinary).Op == "&&" {
				m := map[string]Expr{}
				simple := true
				for i, p := range sf.Params {
					if !simpleArg(x.Args[i]) {
						simple = false
					}
					m[p.Name] = x.Args[i]
				}
				if simple {
					var out []Expr
					for _, c := range splitConj(sf.Body, cs, depth+1, curSplitPkg) {
						out = append(out, substExpr(c, m))
					}
					return out
				}
			}
		}
	}
	return []Expr{e}
}

func simpleArg(e Expr) bool {
	switch x := e.(type) {
	case *EIdent, *EInt, *EStr, *EBool, *ENil:
		return true
	case *EField:
		return simpleArg(x.X)
	}
	return false
}
