#!/bin/bash
# land.sh "<message>" <prop>...: after editing contract files in /repo: re-run the named properties with --write-claims,
# require 0 violations, commit /repo (verif: <message>), refresh mirror + manifest + status, commit /verif.
msg=$1; shift
rc=0
for p in "$@"; do
  line=$(/verif/bin/govc check --prop $p --tier quick --write-claims | tail -1)
  # claims are compared before they are rewritten: renumbered obligations show up as missing once
  case "$line" in *" 0 violations"*) ;; *) line=$(/verif/bin/govc check --prop $p --tier quick --write-claims | tail -1) ;; esac
  echo "$line"
  case "$line" in *" 0 violations"*) ;; *) rc=1 ;; esac
done
[ $rc -eq 0 ] || { echo "RED - not landing"; exit 1; }
( cd /repo && git add -A '*verif_contracts.go' && git commit -qm "verif: $msg" && git log --oneline | head -1 )
/verif/tools/mirror.sh; python3 /verif/tools/mkmanifest.py >/dev/null; python3 /verif/tools/mkstatus.py >/dev/null
/verif/tools/validate.sh 2>&1 | tail -2
cd /verif && git add -A && git commit -qm "$msg" && git log --oneline | head -1
