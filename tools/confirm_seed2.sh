#!/bin/bash
# confirm_seed2.sh <id> [root] [suffix]: confirm a later-round seed produced in <root>/<id>/SEED_OUT (default /tmp/seed2)
# and store it as /verif/seeded/<id><suffix> (default suffix b)
set -u
id=$1; wt=${2:-/tmp/seed2}/$id; out=/verif/seeded/${id}${3:-b}
export GOFLAGS=-mod=mod GOPROXY=off; unset GOTOOLCHAIN GOSUMDB
[ -f $wt/SEED_OUT/patch.diff ] || { echo "no SEED_OUT/patch.diff"; exit 2; }
mkdir -p $out; cp $wt/SEED_OUT/patch.diff $out/; cp $wt/SEED_OUT/*_test.go $out/ 2>/dev/null; cp $wt/SEED_OUT/notes.md $out/ 2>/dev/null
demo=$(ls $out/*_test.go | head -1); dn=$(basename $demo)
tn=$(grep -o 'func TestSeed[A-Za-z0-9_]*' $demo | head -1 | sed 's/func //')
pk=$(grep -m1 '^package ' $demo | awk '{print $2}')
cd $wt; git checkout -q -- . ; git clean -fdq -e SEED_OUT
# package dir: from notes or by matching the package clause among touched dirs
pkg=$(grep -io 'package directory[^`]*`[^`]*`' $out/notes.md | head -1 | sed 's/.*`\([^`]*\)`/\1/' | sed 's|/$||')
if [ -z "$pkg" ] || [ ! -d "$pkg" ]; then pkg=$(git apply --numstat $out/patch.diff | awk '{print $3}' | xargs -n1 dirname | sort -u | head -1); fi
echo "$pkg" > $out/pkgdir
cp $demo $pkg/$dn
go test -vet=off -count=1 -run "^$tn\$" ./$pkg/ > $out/run_without.log 2>&1; r0=$?
git apply $out/patch.diff || { echo "PATCH DOES NOT APPLY"; exit 1; }
go test -vet=off -count=1 -run "^$tn\$" ./$pkg/ > $out/run_with.log 2>&1; r1=$?
rm $pkg/$dn
touched=$(git diff --name-only | xargs -n1 dirname | sort -u | sed 's|^|./|' | tr '\n' ' ')
go test -vet=off -count=1 $touched > $out/existing_tests.log 2>&1; r2=$?
echo "$id: pkg=$pkg test=$tn | demo without change exit=$r0 (want 0); with change exit=$r1 (want !=0); existing tests of [$touched] exit=$r2 (want 0)"
git checkout -q -- .
# does it apply to /repo?
(cd /repo && git apply --check $out/patch.diff 2>&1 | head -2)
