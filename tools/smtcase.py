#!/usr/bin/env python3
"""smtcase.py file.smt2 [case ...]: skolemise the final negated forall goal and test it under extra case hypotheses
(debugging aid: which case of a universally quantified obligation is the solver unable to prove?)."""
import re, subprocess, sys
f = sys.argv[1]
lines = open(f).read().split('\n')
gi = max(i for i, l in enumerate(lines) if l.startswith('(assert (not (forall'))
m = re.match(r'\(assert \(not \(forall \(\((\S+) (\S+)\)\) (.*)\)\)\)$', lines[gi])
var, srt, body = m.group(1), m.group(2), m.group(3)
body = body.replace(var, 'sk!0')
pre = '\n'.join(lines[:gi])
print("goal body:", body[:1500])
for case in (sys.argv[2:] or ['true']):
    q = pre + '\n(declare-fun sk!0 () %s)\n(assert (not %s))\n(assert %s)\n(check-sat)\n(get-info :reason-unknown)\n' % (srt, body, case)
    open('/tmp/smtcase.smt2', 'w').write(q)
    r = subprocess.run(['z3-new', '-T:20', '/tmp/smtcase.smt2'], capture_output=True, text=True).stdout
    print(case, '->', r.strip().replace('\n', ' ')[:160])
