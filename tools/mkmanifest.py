#!/usr/bin/env python3
"""Generate /verif/MANIFEST.json from /verif/props/claims.json (per-property level text) and properties.jsonl."""
import json, os, subprocess
root = os.path.dirname(os.path.dirname(os.path.abspath(__file__)))
props = [json.loads(l) for l in open(os.path.join(root, 'properties.jsonl'))]
claims = json.load(open(os.path.join(root, 'props', 'claims.json')))
hooks = []
try:
    out = subprocess.check_output(['git', '-C', '/repo', 'log', '--format=%H %s', '9aad917..HEAD'], text=True)
    for ln in out.splitlines():
        h, s = ln.split(' ', 1)
        if s.startswith('verif:'):
            hooks.append(h)
except Exception:
    pass
checks, na = [], []
for p in props:
    c = claims.get(p['id'])
    if not c or c.get('not_applicable'):
        na.append({"property_id": p['id'], "reason": (c or {}).get('not_applicable', 'check not built yet; see DESIGN.md section 4')})
        continue
    checks.append({
        "property_id": p['id'],
        "quick_cmd": f"/verif/bin/govc check --prop {p['id']} --tier quick",
        "thorough_cmd": f"/verif/bin/govc check --prop {p['id']} --tier thorough",
        "evidence_file": f"/verif/evidence/{p['id']}.json",
        "replay_cmd_template": "/verif/bin/govc replay {path}",
        "engine": "govc",
        "level_claimed": {"category": "proof", "text": c['text'], "design_ref": c.get('design_ref', 'DESIGN.md section 4')},
        "level_note": c['note'],
        "technique": c.get('technique', 'contract-based deductive verification: weakest-precondition style VCs generated from go/ssa of the real code against comment contracts, discharged by z3/cvc5'),
    })
m = {
    "version": 1,
    "setup_cmd": "/verif/setup.sh",
    "hooks": {"guard": "verif", "enable": "go build -tags verif ./... (contract files verif_contracts.go are comment-only; govc loads /repo with -tags=verif)",
              "baseline_off_cmd": "cd /repo && go test -vet=off -count=1 -timeout 25m ./...",
              "source_commits": hooks, "add_only": True},
    "engines": [{"name": "govc", "path": "/verif/govc", "serves_properties": [c['property_id'] for c in checks],
                 "kind_free_text": "verification-condition generator over go/ssa (x/tools v0.29.0) with a Gobra-style comment contract language; obligations discharged by z3 4.8.12 / z3 5.1.0 / cvc5 1.0.3"}],
    "checks": checks,
    "notes": "Contracts live in /repo/<pkg>/verif_contracts.go (build tag verif, comment-only), mirrored under /verif/contracts. Known findings: /verif/known_findings.txt. See DESIGN.md.",
    "not_applicable": na,
}
json.dump(m, open(os.path.join(root, 'MANIFEST.json'), 'w'), indent=1)
print("checks:", [c['property_id'] for c in checks], "n/a:", [n['property_id'] for n in na])
