#!/bin/bash
# reverse_fixes.sh: canaries. For every 'fixed:' entry of known_findings.txt, undo that fix: commit in /repo's working tree
# (git revert -n), run the property's quick check (must report a violation: a fixed entry suppresses nothing), restore.
cd /repo || exit 2
[ -n "$(git status --porcelain)" ] && { echo "/repo not clean"; exit 2; }
grep '^fixed:' /verif/known_findings.txt | while read _ p c rest; do
  prop=${p#property=}
  if ! git revert -n $c >/dev/null 2>&1; then echo "$prop $c: revert does not apply cleanly"; git revert --abort 2>/dev/null; git reset -q --hard HEAD; continue; fi
  out=$(/verif/bin/govc check --prop $prop --tier quick --no-evidence 2>&1)
  n=$(echo "$out" | grep -c '^VIOLATION')
  echo "$prop $c: $n violation line(s) $(echo "$out" | grep '^VIOLATION' | head -2 | sed 's/.*replay=.*\/\([^/]*\)\.json.*/\1/' | tr '\n' ' ')"
  git reset -q --hard HEAD
done
git status --short
