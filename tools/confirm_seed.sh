#!/bin/bash
# confirm_seed.sh <id> <pkgdir> [seedname]: confirm a sub-agent's seeded change in its scratch worktree and store it under /verif/seeded/<seedname>
# - demo test fails with the change, passes without; existing tests of the touched package pass with the change.
set -u
id=$1; pkg=$2; name=${3:-$1}
wt=/tmp/seed/$id
out=/verif/seeded/$name
export GOFLAGS=-mod=mod GOPROXY=off
unset GOTOOLCHAIN GOSUMDB
mkdir -p $out
if [ -d $wt/SEED_OUT ]; then
  cp $wt/SEED_OUT/patch.diff $out/patch.diff
  cp $(ls $wt/SEED_OUT/*_test.go | head -1) $out/
  cp $wt/SEED_OUT/notes.md $out/notes.md 2>/dev/null
else
  git -C /repo worktree add -q --detach $wt 9aad917
fi
demo=$(ls $out/*_test.go | head -1)
dn=$(basename $demo)
tn=$(grep -o 'func TestSeed[A-Za-z0-9_]*' $demo | head -1 | sed 's/func //')
cd $wt
git checkout -q -- . ; git clean -fdq -e SEED_OUT
# 1. without change: demo passes
cp $out/$dn $pkg/$dn
go test -vet=off -count=1 -run "^$tn\$" ./$pkg/ > $out/run_without.log 2>&1; r0=$?
# 2. with change: demo fails
git apply $out/patch.diff || { echo "PATCH DOES NOT APPLY"; exit 1; }
go test -vet=off -count=1 -run "^$tn\$" ./$pkg/ > $out/run_with.log 2>&1; r1=$?
# 3. existing tests with change (demo removed)
rm $pkg/$dn
touched=$(git diff --name-only | xargs -n1 dirname | sort -u | sed 's|^|./|' | tr '\n' ' ')
go test -vet=off -count=1 $touched > $out/existing_tests.log 2>&1; r2=$?
echo "demo without change exit=$r0 (want 0); with change exit=$r1 (want !=0); existing tests of [$touched] exit=$r2 (want 0)"
tail -3 $out/existing_tests.log
git checkout -q -- .
