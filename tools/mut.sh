#!/bin/bash
# mut.sh <repo-relative file> <sed expression> <pkgpattern> <func>...: verify functions against a mutated copy of one file (overlay; /repo untouched)
f=$1; e=$2; shift 2
d=$(mktemp -d /root/mut.XXXX)
sed "$e" /repo/$f > $d/$(basename $f)
if cmp -s /repo/$f $d/$(basename $f); then echo "MUTATION DID NOT CHANGE THE FILE"; rm -rf $d; exit 2; fi
diff /repo/$f $d/$(basename $f) | head -6
/verif/bin/govc vc -overlay /repo/$f=$d/$(basename $f) "$@" 2>&1 | grep -v "not found\|^        file\|^        model" | cut -c1-200
rm -rf $d
