#!/bin/bash
# mutate_all.sh [max-per-function]: run the contract-strength probe over every function under contract; survivors go to out/mutation/
OUT=/verif/out/mutation${2:+_$2}; mkdir -p $OUT
for cf in $(cd /repo && git ls-files | grep verif_contracts.go); do
  pkg=$(dirname $cf)
  grep '^//@ func ' /repo/$cf | sed 's|^//@ func ||' | while read fn; do
    case "$fn" in @*) continue;; esac
    out=$OUT/$(echo "$pkg.$fn" | tr '/ ()*$[]' '_______').txt
    [ -s "$out" ] && continue
    timeout 1800 python3 /verif/tools/mutate.py "$pkg" "$fn" --max ${1:-30} --jobs 5 --seed ${2:-1} > "$out" 2>&1
    head -1 "$out"
  done
done
