#!/usr/bin/env python3
"""mkstatus.py: write /verif/STATUS.md from the evidence files of the last run (what each check actually covered)."""
import json, glob, os
rows=[]
out=["# STATUS — generated from /verif/evidence/*.json by tools/mkstatus.py (do not edit)\n"]
out.append("| id | tier | obligations | discharged | bounded | functions under contract | lemmas | assumptions | solver s | wall s |")
out.append("|----|------|-------------|------------|---------|--------------------------|--------|-------------|----------|--------|")
det=[]
for f in sorted(glob.glob('/verif/evidence/C*.json')):
    d=json.load(open(f)); c=d.get('coverage',{})
    b=c.get('bounded') or []
    out.append("| %s | %s | %s | %s | %s | %d | %d | %d | %s | %s |"%(d['property_id'],d.get('tier'),c.get('obligations'),c.get('discharged'),
        ('%d stand-in(s)'%len(b)) if b else '-',len(c.get('functions_under_contract') or []),len(c.get('lemmas') or []),len(d.get('assumptions') or []),c.get('solver_s'),d.get('wall_s')))
    det.append("\n## %s\n"%d['property_id'])
    det.append("Functions under contract:\n")
    for fn in c.get('functions_under_contract') or []: det.append("- `%s`"%fn)
    if c.get('lemmas'):
        det.append("\nLemmas:\n"); det += ["- `%s`"%l for l in c['lemmas']]
    if b:
        det.append("\nBounded stand-ins (never counted as proved):\n"); det += ["- %s"%json.dumps(x)[:400] for x in b]
    det.append("\nAssumptions left unchecked:\n"); det += ["- %s"%a for a in d.get('assumptions') or []]
    hv=c.get('havoced_repo_calls') or []
    if hv:
        det.append("\nCalls abstracted by havoc (result and reachable heap unconstrained):\n"); det += ["- `%s`"%h for h in hv]
open('/verif/STATUS.md','w').write("\n".join(out+det)+"\n")
print("STATUS.md written")
