#!/usr/bin/env python3
"""mkmeta2.py: write seeded/<id>b/meta.json for the second-round seeds from the sub-agent's notes.md, the logs written by
tools/confirm_seed2.sh and the last line of tools/selftest.sh for that seed."""
import json, re, os, glob, subprocess
last = {}
if os.path.exists('/verif/seeded/selftest_last.txt'):
    for l in open('/verif/seeded/selftest_last.txt'):
        m = re.match(r'(\S+) \[([^\]]*)\]: (.*)', l.strip())
        if m: last[m.group(1)] = (m.group(2).split(), m.group(3))
def section(notes, name):
    m = re.search(r'^## ' + re.escape(name) + r'.*?\n(.*?)(?=^## |\Z)', notes, re.S | re.M)
    return re.sub(r'\s+', ' ', m.group(1)).strip() if m else ''
def tail(p):
    try:
        ls = [l for l in open(p).read().strip().split('\n') if l.strip()]
        return ls[-1] if ls else ''
    except OSError:
        return ''
for d in sorted(glob.glob('/verif/seeded/*[bcdefghijklmnop]')):
    sid = os.path.basename(d)
    notes = open(d + '/notes.md').read() if os.path.exists(d + '/notes.md') else ''
    t = glob.glob(d + '/*_test.go')[0]
    run = re.search(r'func (TestSeed\w+)', open(t).read()).group(1)
    files = re.findall(r'^\+\+\+ b/(\S+)', open(d + '/patch.diff').read(), re.M)
    props, outcome = last.get(sid, ([sid[:-1]], 'not run'))
    meta = {
        'seed': sid, 'property': sid[:-1], 'round': {'b': 2, 'c': 3, 'd': 4, 'e': 5, 'f': 6, 'g': 7, 'h': 8, 'i': 9, 'j': 10, 'k': 11, 'l': 12, 'm': 13, 'n': 14, 'o': 15, 'p': 16}[sid[-1]],
        'source': 'fresh sub-agent given only the property text, a hint which mechanisms the earlier seeds for this property already used, and a scratch worktree of /repo outside /repo and /verif with the contract files removed; nothing from /verif. Confirmed by me (tools/confirm_seed2.sh).',
        'files_changed': files, 'patch': 'patch.diff',
        'change': section(notes, 'Change'), 'clause_broken': section(notes, 'Property clause broken'),
        'needs_to_manifest': section(notes, 'Circumstances needed to manifest'),
        'demonstration': {'test_file': os.path.basename(t), 'test': run, 'package_dir': open(d + '/pkgdir').read().strip(),
                          'without_change': tail(d + '/run_without.log'), 'with_change': tail(d + '/run_with.log'),
                          'existing_tests_with_change': tail(d + '/existing_tests.log')},
        'what_i_ran': ['tools/confirm_seed2.sh %s (later rounds: with the scratch root and suffix of the round): demo passes without the change, fails with it; the touched packages\' own tests pass with it; the patch applies to /repo' % sid[:-1],
                       'DEMO=1 tools/try_seed.sh %s %s: git -C /repo apply, demo on the changed tree (fails), quick checks, git checkout -- .' % (sid, ' '.join(props))],
        'checks_run': props, 'outcome': outcome,
    }
    json.dump(meta, open(d + '/meta.json', 'w'), indent=1)
    print(sid, outcome[:100])
