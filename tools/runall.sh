#!/bin/bash
# run every registered quick check; print one line per property
for p in $(python3 -c "import json;print(' '.join(c['property_id'] for c in json.load(open('/verif/MANIFEST.json'))['checks']))"); do
  /verif/bin/govc check --prop $p --tier ${1:-quick} "${@:2}" | tail -1
done
python3 /verif/tools/mkstatus.py >/dev/null
