#!/bin/bash
# run every registered check of one tier; print one line per property; exit 1 if any property reports a violation
# (so that `tools/runall.sh quick && git commit ...` cannot commit a red state)
rc=0
for p in $(python3 -c "import json;print(' '.join(c['property_id'] for c in json.load(open('/verif/MANIFEST.json'))['checks']))"); do
  line=$(/verif/bin/govc check --prop $p --tier ${1:-quick} "${@:2}" | tail -1)
  echo "$line"
  case "$line" in *" 0 violations"*) ;; *) rc=1 ;; esac
done
python3 /verif/tools/mkstatus.py >/dev/null
[ $rc -eq 0 ] && echo "ALL GREEN" || echo "RED: at least one property reports violations"
exit $rc
