import re,subprocess,os,sys,glob,collections
repo='/repo'
fns=collections.defaultdict(list)
for f in glob.glob(repo+'/**/*.go',recursive=True):
    if f.endswith('_test.go') or 'verif_contracts' in f or '/ui/' in f: continue
    for m in re.finditer(r'^func \((\w+) \*(\w+)\) (UnmarshalYAML|UnmarshalJSON)\((\w+) ',open(f).read(),re.M):
        pkgdir=os.path.dirname(f)[len(repo)+1:]
        fns[pkgdir].append((m.group(1),m.group(2),m.group(3),m.group(4)))
for pkgdir,lst in sorted(fns.items()):
    cf=os.path.join(repo,pkgdir,'verif_contracts.go')
    existing=open(cf).read() if os.path.exists(cf) else None
    pkgname=re.search(r'^package (\w+)',open(glob.glob(os.path.join(repo,pkgdir,'*.go'))[0]).read(),re.M).group(1)
    add=''; names=[]
    for recv,T,meth,arg in lst:
        name='(*%s).%s'%(T,meth)
        if existing and ('//@ func '+name+'\n') in existing: continue
        cond='%s != nil'%recv + (' && %s != nil'%arg if meth=='UnmarshalYAML' else '')
        add+='//@ func %s\n//@   props C17\n//@   requires %s\n'%(name,cond); names.append(name)
    if not names: continue
    body=(existing if existing else '//go:build verif\n\npackage %s\n'%pkgname)+'\n'+add
    open(cf,'w').write(body)
    try:
        out=subprocess.run(['/verif/bin/govc','vc','./'+pkgdir]+names,capture_output=True,text=True,timeout=900,cwd='/verif').stdout
    finally:
        if existing is None: os.remove(cf)
        else: open(cf,'w').write(existing)
    cur=None
    for l in out.split('\n'):
        if l.startswith('== '): cur=l[3:]
        if 'FAIL' in l or 'ENGINE' in l: print(pkgdir, cur.split('/')[-1] if cur else '', '|', l.strip()[:170])
    print('#',pkgdir,len(names),'functions swept', [l for l in out.split('\n') if 'discharged' in l][-1:] )
