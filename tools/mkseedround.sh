#!/bin/bash
# mkseedround.sh <root> : scratch worktrees of /repo HEAD (contract files removed) + one prompt file per applicable property under <root>.
# The prompts contain the property text and one-paragraph summaries of the changes earlier sub-agents produced (seeded/*/meta.json) - nothing else from /verif.
root=$1; mkdir -p $root
python3 - "$root" <<'PY'
import json,glob,sys
root=sys.argv[1]
props={}
for l in open('/verif/properties.jsonl'):
    d=json.loads(l); props[d['id']]=d
na={'C01','C08'}
for pid,d in props.items():
    if pid in na: continue
    hints=[]; files=set()
    for m in sorted(glob.glob(f'/verif/seeded/{pid}*/meta.json')):
        mj=json.load(open(m))
        if mj.get('property')!=pid: continue
        hints.append('- '+mj.get('change','')[:380].replace('\n',' '))
        files.update(mj.get('files_changed',[]))
    wt=f'{root}/{pid}'
    txt=f"""# Task

You are helping to evaluate a verification effort for prometheus/alertmanager (Go). Your job: produce ONE realistic
change to the alertmanager source code that BREAKS the semantic property stated below, while the code still compiles
and the existing test suite of every package you touch still passes. Think of a plausible maintainer slip: a tidy-up,
an optimisation, a refactor, a "validation fix" that looks innocent in review but is wrong.

Your scratch git worktree of the repository is `{wt}` (work only there; never touch `/repo` or `/verif`, never read
anything under `/verif`). Go environment for every shell command: `export GOFLAGS=-mod=mod GOPROXY=off` (no network;
leave GOTOOLCHAIN and GOSUMDB unset; plain `go` auto-switches to the right toolchain from the module cache).
`go build ./...` fails on the `ui` package in any worktree (missing embedded assets); build and test the packages you touch.
Never use `git stash` (the stash is shared by all worktrees of the repository and other people work beside you): to compare with the unchanged code, save your diff to a file, `git checkout -- .`, and `git apply` it again.

## The property ({pid}: {d.get('title','')})

{d.get('statement','')}

## Requirements for the change

1. It must need something specific to manifest - a particular interleaving, a crash or fault at a particular point, a
   multi-step sequence of operations, an unusual input, or two cooperating sites that each look fine alone. NOT
   something that ordinary use or a smoke test would expose at once.
2. It compiles and the existing tests of every package you touched pass unedited
   (`go test -vet=off -count=1 ./<pkg>/...`). Do not edit or delete existing tests.
3. Small: one to three functions, ideally under 30 changed lines. Source files only (no test files, no docs, no
   generated files, no go.mod changes).
4. Write a demonstration: a NEW in-package Go test file named `zz_seed_{pid}_test.go` with ONE test function whose name
   starts with `TestSeed{pid}`, that PASSES on the unchanged code and FAILS with your change. It must be deterministic
   (no flaky timing; run it 3 times each way), finish within 60 s, and assert the behaviour the property states (not an
   implementation detail).
5. The change must be DIFFERENT in mechanism AND in function from the earlier changes already collected for this
   property (listed below). Files already used: {', '.join(sorted(files))}. Prefer a function in a file or package that
   none of them touches, as long as the property really depends on it; look widely (callers, helpers, constructors, API
   handlers and model conversions, encoders/decoders, configuration conversion, caches, indexes, background loops,
   command-line tools that the property mentions).

## Earlier changes for this property (do not repeat these)

{chr(10).join(hints) if hints else '(none)'}

## Deliverables (all under `{wt}/SEED_OUT/`)

- `patch.diff`: `git diff` of the SOURCE change only (not the demo test), applicable with `git apply` at the repo root.
- `zz_seed_{pid}_test.go`: the demonstration test (its `package` clause must be the in-package name of the directory it
  belongs to).
- `notes.md` with these sections: `## Change` (file, function, what, why it looks innocent), `## Property clause broken`,
  `## Circumstances needed to manifest`, `## Demo test` (must contain the line ``Package directory: `<dir relative to repo root>` ``
  and the test name), `## Commands and results` (what you ran: demo without change passes, demo with change fails,
  existing tests of touched packages pass with the change).

When done, leave the worktree CLEAN of your change (git checkout -- . ; remove the demo test from the package dir),
keeping only SEED_OUT/. Reply with a three-line summary (file/function, mechanism, what is needed to manifest).
"""
    open(f'{root}/{pid}.prompt.md','w').write(txt)
PY
cd /repo
for p in C02 C03 C04 C05 C06 C07 C09 C10 C11 C12 C13 C14 C15 C16 C17 C18 C19 C20; do
  git worktree add -q --detach $root/$p HEAD && (cd $root/$p && git rm -q $(git ls-files | grep verif_contracts.go) && git -c user.email=a@b -c user.name=x commit -qm "scratch" )
done
git worktree list | wc -l
