#!/bin/bash
# mirror.sh: refresh /verif/contracts (a readable byte-identical copy of the contract files that live in /repo)
cd /repo || exit 2
find /verif/contracts -name verif_contracts.go -delete
for f in $(git ls-files '*verif_contracts.go'); do mkdir -p /verif/contracts/$(dirname $f); cp $f /verif/contracts/$f; done
