#!/usr/bin/env python3
"""mkseedtable.py: regenerate the seeds table of DESIGN.md section A.7 (between the SEEDTABLE markers) from
seeded/*/meta.json and seeded/selftest_last.txt."""
import json, glob, os, re
last = {}
for l in open('/verif/seeded/selftest_last.txt'):
    m = re.match(r'(\S+) \[([^\]]*)\]: (.*)', l.strip())
    if m: last[m.group(1)] = m.group(3)
rows = ['| seed | file(s) | change (from the sub-agent\'s notes) | outcome of `tools/selftest.sh` |', '|------|---------|-----------|---------|']
for d in sorted(glob.glob('/verif/seeded/C*')):
    sid = os.path.basename(d)
    mp = d + '/meta.json'
    if not os.path.exists(mp): continue
    m = json.load(open(mp))
    ch = re.sub(r'\s+', ' ', m.get('change', '')).replace('|', '\\|')
    if len(ch) > 230: ch = ch[:230] + '…'
    out = last.get(sid, m.get('outcome', ''))
    if out.startswith('CAUGHT by'):
        names = out[len('CAUGHT by'):].split()
        out = 'caught: ' + ' '.join(names[:3]) + (' …' if len(names) > 3 else '')
    elif m.get('outcome_note'):
        out = m['outcome_note']
    rows.append('| %s | %s | %s | %s |' % (sid, ', '.join(m.get('files_changed', [])), ch, out.replace('|', '\\|')))
s = open('/verif/DESIGN.md').read()
a = s.index('<!-- SEEDTABLE -->'); b = s.index('<!-- /SEEDTABLE -->')
s = s[:a] + '<!-- SEEDTABLE -->\n' + '\n'.join(rows) + '\n' + s[b:]
open('/verif/DESIGN.md', 'w').write(s)
print(len(rows) - 2, 'rows')
