#!/usr/bin/env python3
"""mutate.py <pkgdir> <contract-func-name> [--max N] [--jobs J]
Contract-strength probe (development aid, not a registered check): applies textual mutation operators inside the
source range of one function under contract and verifies each mutant with `govc vc -overlay` (nothing is written to
/repo). Prints the mutants that still verify (survivors): each is either an equivalent/irrelevant change or a hole in
the contract."""
import re, sys, os, subprocess, tempfile, concurrent.futures, argparse, glob
ap = argparse.ArgumentParser()
ap.add_argument('pkg'); ap.add_argument('func'); ap.add_argument('--max', type=int, default=80); ap.add_argument('--jobs', type=int, default=6)
ap.add_argument('--seed', type=int, default=1)
ap.add_argument('--killed-json', default='')
ap.add_argument('--verify', nargs='*', help='contract names to verify (default: the function itself)')
a = ap.parse_args()
name = a.func
base = name.split('$')[0]
m = re.match(r'\(\*?(\w+)(\[.*\])?\)\.(\w+)$', base)
if m:
    pat = re.compile(r'^func \(\w+ \*?%s(\[[^\]]*\])?\) %s\(' % (m.group(1), m.group(3)))
else:
    pat = re.compile(r'^func %s(\[[^\]]*\])?\(' % re.escape(base))
src = None
for f in sorted(glob.glob('/repo/%s/*.go' % a.pkg)):
    if f.endswith('_test.go') or f.endswith('verif_contracts.go'): continue
    lines = open(f).read().split('\n')
    for i, l in enumerate(lines):
        if pat.match(l):
            j = i
            while j < len(lines) and lines[j] != '}': j += 1
            src = (f, lines, i, j)
if not src:
    print('function not found'); sys.exit(2)
f, lines, lo, hi = src
ops = [
 (r' == ', ' != '), (r' != ', ' == '), (r' < ', ' <= '), (r' <= ', ' < '), (r' > ', ' >= '), (r' >= ', ' > '),
 (r' && ', ' || '), (r' \|\| ', ' && '), (r'\bif !', 'if '), (r'\bif (?!!)', 'if !'), (r'\+ 1\b', '+ 0'), (r'- 1\b', '- 0'),
 (r'\bcontinue$', 'break'), (r'\bbreak$', 'continue'), (r'\.Before\(', '.After('), (r'\.After\(', '.Before('), (r'\btrue\b', 'false'), (r'\bfalse\b', 'true'),
]
muts = []
for k in range(lo + 1, hi):
    l = lines[k]
    st = l.strip()
    if not st or st.startswith('//'): continue
    for rx, rep in ops:
        for mm in re.finditer(rx, l):
            nl = l[:mm.start()] + re.sub(rx, rep, l[mm.start():mm.end()], count=1) + l[mm.end():]
            if nl != l: muts.append((k, nl, '%s -> %s' % (rx, rep)))
    # statement deletion: simple call / assignment / delete lines
    if re.match(r'^[\w\.\[\]\(\)\*&, ]+(\(.*\)|\+\+|--|[:+\-]?= .*)$', st) and not st.endswith('{') and ':=' not in st and not st.startswith(('return', 'defer', 'go ', 'var ', 'case', 'default')):
        ind = l[:len(l) - len(l.lstrip())]
        muts.append((k, ind + '_ = 0', 'delete statement'))
import random
random.seed(a.seed)
if len(muts) > a.max:
    muts = random.sample(muts, a.max)
muts.sort()
verify = a.verify or [name]
def run(mu):
    k, nl, desc = mu
    d = tempfile.mkdtemp(prefix='mut', dir='/root')
    p = os.path.join(d, os.path.basename(f))
    ls = list(lines); ls[k] = nl
    open(p, 'w').write('\n'.join(ls))
    try:
        out = subprocess.run(['/verif/bin/govc', 'vc', '-out', os.path.join(d, 'out'), '-overlay', '%s=%s' % (f, p), './' + a.pkg] + verify, capture_output=True, text=True, timeout=400, cwd='/verif')
        out = out.stdout + out.stderr
    except subprocess.TimeoutExpired:
        out = 'TIMEOUT'
    finally:
        import shutil; shutil.rmtree(d, ignore_errors=True)
    if 'load errors' in out or 'load:' in out or 'load error' in out: return (mu, 'nocompile')
    if 'FAIL' in out or 'ENGINE ERROR' in out or 'TIMEOUT' in out or 'no contract named' in out: return (mu, 'killed')
    if 'discharged' in out: return (mu, 'SURVIVED')
    return (mu, 'unknown:' + out[:100])
res = []
with concurrent.futures.ThreadPoolExecutor(a.jobs) as ex:
    for r in ex.map(run, muts): res.append(r)
killed = sum(1 for r in res if r[1] == 'killed'); noc = sum(1 for r in res if r[1] == 'nocompile')
surv = [r for r in res if r[1] not in ('killed', 'nocompile')]
print('%s %s: %d mutants, %d killed, %d do not compile, %d survived' % (a.pkg, name, len(res), killed, noc, len(surv)))
if a.killed_json:
    import json
    json.dump([{'file': f[len('/repo/'):], 'line': k + 1, 'old': lines[k], 'new': nl, 'op': desc, 'pkg': a.pkg, 'func': name} for (k, nl, desc), st in res if st == 'killed'], open(a.killed_json, 'w'), indent=1)
for (k, nl, desc), st in surv:
    print('  %s %s:%d  [%s]\n      - %s\n      + %s' % (st, os.path.basename(f), k + 1, desc, lines[k].strip(), nl.strip()))
