#!/bin/bash
# mkcorpus.sh: build the must-fail corpus (selftest/corpus.json) from mutants that the contracts kill today
cd /verif
while read prop pkg fn; do
  [ -z "$prop" ] && continue
  out=out/killed/$(echo "$prop.$pkg.$fn" | tr '/ ()*$[]' '_______').json
  [ -s "$out" ] || timeout 1500 python3 tools/mutate.py "$pkg" "$fn" --max 14 --jobs 3 --seed 7 --killed-json "$out" > /dev/null 2>&1
done <<'LIST'
C02 silence (*Silencer).Mutes
C02 silence (versionIndex).findVersionGreaterThan
C02 silence (*Silences).query
C03 inhibit (*InhibitRule).findEqualSourceAlert
C03 inhibit (*index).Add
C04 notify (*DedupStage).needsUpdate
C04 notify partitionAlertsByState
C05 dispatch (*aggrGroup).flush
C05 store (*Alerts).DeleteIfNotModified
C06 dispatch getGroupLabels
C06 dispatch (*Dispatcher).groupAlert
C07 dispatch (*Route).Match
C07 dispatch newRoute
C09 silence (state).merge
C09 silence (*Silences).Merge
C10 nflog (state).merge
C10 nflog (*Log).GC
C11 silence (*replaceFile).Close
C11 silence (*Silences).Maintenance$1
C12 silence canUpdate
C12 silence getState
C12 silence (*Silences).expire
C13 api/v2 (*API).postAlertsHandler
C13 alert (*Alert).Merge
C14 store (*Alerts).SetIfNotOlder
C15 timeinterval (TimeInterval).ContainsTime
C15 timeinterval (*Intervener).Mutes
C16 pkg/labels (Matchers).Matches
C16 pkg/labels (*Matcher).Matches
C17 config checkReceiver
C17 config (*Route).UnmarshalYAML
C18 limit (*Bucket[V]).Upsert
C18 limit (*Bucket[V]).IsStale
C19 cluster (*delegate).MergeRemoteState
C19 cluster (*Channel).Broadcast
C20 notify (RetryStage).exec
C20 notify (*Retrier).Check
LIST
python3 - <<'PY'
import json,glob,os
corpus=[]
for f in sorted(glob.glob('/verif/out/killed/*.json')):
    prop=os.path.basename(f).split('.')[0]
    try: ms=json.load(open(f))
    except: continue
    # prefer non-deletion operators, at most 3 per function
    ms.sort(key=lambda m: (m['op']=='delete statement', m['line']))
    for m in ms[:3]:
        m['prop']=prop; corpus.append(m)
corpus+=json.load(open('/verif/selftest/extra.json'))  # hand-written entries for clauses added after seed rounds
json.dump(corpus,open('/verif/selftest/corpus.json','w'),indent=1)
print(len(corpus),'entries')
PY
