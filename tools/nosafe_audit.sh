#!/bin/bash
# nosafe_audit.sh: for every contract that switches the safety obligations off (nosafe), verify the function with them on
# and report how many safety obligations would fail (0 = nosafe can be dropped). Edits the contract file in place and restores it.
cd /repo
for cf in $(git ls-files | grep verif_contracts.go); do
  pkg=$(dirname $cf)
  python3 - "$cf" <<'PY' > /root/nosafe_funcs.txt
import sys,re
s=open('/repo/'+sys.argv[1]).read()
cur=None
for l in s.split('\n'):
    m=re.match(r'//@ func (.*)$',l)
    if m: cur=m.group(1)
    if l.strip()=='//@   nosafe' and cur: print(cur)
PY
  while read fn; do
    [ -z "$fn" ] && continue
    cp $cf /root/contract_backup.go
    python3 - "$cf" "$fn" <<'PY'
import sys
p='/repo/'+sys.argv[1]; fn=sys.argv[2]
s=open(p).read()
i=s.index('//@ func '+fn+'\n')
j=s.find('//@ func ',i+5)
if j<0: j=len(s)
blk=s[i:j].replace('//@   nosafe\n','',1)
open(p,'w').write(s[:i]+blk+s[j:])
PY
    out=$(timeout 600 /verif/bin/govc vc ./$pkg "$fn" 2>&1)
    nf=$(echo "$out" | grep -c "FAIL.*safe:")
    no=$(echo "$out" | grep -c "FAIL" )
    echo "$pkg $fn: safety failures=$nf other failures=$((no-nf)) $(echo "$out" | grep discharged | tr -s ' ')"
    cp /root/contract_backup.go $cf
  done < /root/nosafe_funcs.txt
done
git -C /repo status --short
