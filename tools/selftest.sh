#!/bin/bash
# selftest.sh [seed...]: must-fail corpus. For every stored seeded change: apply it to /repo's working tree, run the quick
# check of the properties it is expected to break (seeded/<id>/expect, default: the seed's own id), restore the tree.
# Prints one line per seed: CAUGHT / NOT-CAUGHT / DOES-NOT-APPLY, and writes /verif/seeded/selftest_last.txt.
cd /verif
seeds="$@"; [ -z "$seeds" ] && seeds=$(ls seeded | grep -v selftest)
if [ -n "$*" ]; then touch seeded/selftest_last.txt; for s in $seeds; do sed -i "/^$s \[/d" seeded/selftest_last.txt; done; else : > seeded/selftest_last.txt; fi
for s in $seeds; do
  [ -d seeded/$s ] || continue
  props=$s; [ -f seeded/$s/expect ] && props=$(cat seeded/$s/expect)
  out=$(tools/try_seed.sh $s $props 2>&1)
  if echo "$out" | grep -q "DOES NOT APPLY"; then r="DOES-NOT-APPLY"
  elif echo "$out" | grep -q "^VIOLATION"; then r="CAUGHT by $(echo "$out" | grep '^VIOLATION' | sed 's/.*property=\([A-Z0-9]*\) replay=.*\/\([^/]*\)\.json.*/\1:\2/' | sort -u | awk '{print (/missing|engine/ ? "1 " : "0 ") $0}' | sort | cut -c3- | head -4 | tr '\n' ' ')"
  else r="NOT-CAUGHT"; fi
  echo "$s [$props]: $r" | tee -a seeded/selftest_last.txt
done
git -C /repo status --short
