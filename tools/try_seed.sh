#!/bin/bash
# try_seed.sh <seedname> <prop>...: apply a stored seeded change to /repo's working tree, run the quick checks, undo.
# Uses patch_on_head.diff when present (the same change re-expressed on the current tree after a fix: commit moved the code).
# With DEMO=1 also runs the seed's demonstration test on the changed tree (expected to fail).
name=$1; shift
P=/verif/seeded/$name/patch.diff; [ -f /verif/seeded/$name/patch_on_head.diff ] && P=/verif/seeded/$name/patch_on_head.diff
cd /repo || exit 2
if [ -n "$(git status --porcelain)" ]; then echo "/repo working tree not clean"; exit 2; fi
if ! { git apply $P 2>/dev/null || git apply -C1 $P 2>/dev/null; }; then echo "SEED $name DOES NOT APPLY to the current tree"; git checkout -q -- . ; exit 2; fi
if [ -n "$DEMO" ]; then
  demo=$(ls /verif/seeded/$name/*_test.go | head -1)
  pkg=$(git diff --name-only | head -1 | xargs dirname)
  [ -f /verif/seeded/$name/pkgdir ] && pkg=$(cat /verif/seeded/$name/pkgdir)
  tn=$(grep -o 'func TestSeed[A-Za-z0-9_]*' $demo | head -1 | sed 's/func //')
  echo "{\"Replace\":{\"/repo/$pkg/$(basename $demo)\":\"$demo\"}}" > /root/seed_ov.json
  ( unset GOTOOLCHAIN GOSUMDB; export GOFLAGS=-mod=mod GOPROXY=off; go test -overlay /root/seed_ov.json -vet=off -count=1 -timeout 120s -run "^$tn\$" ./$pkg/ 2>&1 | tail -4 )
  echo "demo exit=$?"
fi
for p in "$@"; do
  /verif/bin/govc check --prop $p --tier quick --no-evidence | grep -v "^FAILED\|^       " > /root/try_seed.out
  # violations of obligations that still exist first, then (at most 3 of) those reported because an obligation is no longer generated
  grep "^VIOLATION" /root/try_seed.out | grep -v "missing\|engine" | head -6
  grep "^VIOLATION" /root/try_seed.out | grep "missing\|engine" | head -3
  grep -v "^VIOLATION" /root/try_seed.out | tail -3
done
git -C /repo checkout -q -- .
git -C /repo status --short
