#!/bin/bash
# try_seed.sh <seedname> <prop>...: apply a stored seeded change to /repo, run the quick checks, undo.
name=$1; shift
P=/verif/seeded/$name/patch.diff; [ -f /verif/seeded/$name/patch_on_head.diff ] && P=/verif/seeded/$name/patch_on_head.diff
cd /repo && { git apply $P 2>/dev/null || git apply -C1 /verif/seeded/$name/patch.diff 2>/dev/null || git apply --3way /verif/seeded/$name/patch.diff; } || exit 2
for p in "$@"; do
  /verif/bin/govc check --prop $p --tier quick --no-evidence | grep -v "^FAILED\|^       " | tail -6
  echo "exit=$?"
done
git -C /repo reset -q --hard HEAD
git -C /repo status --short
