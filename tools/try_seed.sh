#!/bin/bash
# try_seed.sh <seedname> <prop>...: apply a stored seeded change to /repo, run the quick checks, undo.
name=$1; shift
cd /repo && git apply /verif/seeded/$name/patch.diff || exit 2
for p in "$@"; do
  /verif/bin/govc check --prop $p --tier quick --no-evidence | grep -v "^FAILED\|^       " | tail -6
  echo "exit=$?"
done
git -C /repo checkout -- .
git -C /repo status --short
