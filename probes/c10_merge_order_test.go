package nflog

// Replay probe for C10 (run in package nflog): the same multiset of log-entry versions (several group/receiver keys,
// several timestamps per key, some duplicated) is merged into two logs in different pseudo-random orders and
// batchings; both must end with, for every key, the version with the newest timestamp, and a local Log call at the
// end must not move any key backwards. Deterministic seeds.

import (
	"fmt"
	"math/rand"
	"testing"
	"time"

	"github.com/prometheus/client_golang/prometheus"
	"google.golang.org/protobuf/types/known/timestamppb"

	pb "github.com/prometheus/alertmanager/nflog/nflogpb"
)

func TestProbeC10MergeOrder(t *testing.T) {
	base := time.Now().UTC().Add(-time.Hour)
	for seed := int64(1); seed <= 60; seed++ {
		r := rand.New(rand.NewSource(seed))
		var versions []*pb.MeshEntry
		newest := map[string]int64{}
		for k := 0; k < 4; k++ {
			recv := &pb.Receiver{GroupName: fmt.Sprintf("recv-%d", k%2), Integration: "webhook", Idx: uint32(k / 2)}
			gk := fmt.Sprintf("group-%d", k)
			for v := 0; v < 1+r.Intn(4); v++ {
				ts := base.Add(time.Duration(r.Intn(50)) * time.Minute)
				e := &pb.MeshEntry{Entry: &pb.Entry{Receiver: recv, GroupKey: []byte(gk), Timestamp: timestamppb.New(ts), FiringAlerts: []uint64{uint64(v + 1)}}, ExpiresAt: timestamppb.New(base.Add(48 * time.Hour))}
				versions = append(versions, e)
				if r.Intn(3) == 0 {
					versions = append(versions, e)
				}
				key := stateKey(gk, recv)
				if ts.UnixNano() > newest[key] {
					newest[key] = ts.UnixNano()
				}
			}
		}
		build := func(order []int) *Log {
			l, err := New(Options{Retention: time.Hour, Metrics: prometheus.NewRegistry()})
			if err != nil {
				t.Fatal(err)
			}
			l.SetBroadcast(func([]byte) {})
			for i := 0; i < len(order); {
				n := 1 + r.Intn(3)
				var batch []byte
				inBatch := map[string]bool{}
				for ; n > 0 && i < len(order); n, i = n-1, i+1 {
					e := versions[order[i]]
					key := stateKey(string(e.Entry.GroupKey), e.Entry.Receiver)
					if inBatch[key] {
						break
					}
					inBatch[key] = true
					b, err := marshalMeshEntry(e)
					if err != nil {
						t.Fatal(err)
					}
					batch = append(batch, b...)
				}
				if err := l.Merge(batch); err != nil {
					t.Fatalf("seed %d: Merge: %v", seed, err)
				}
			}
			return l
		}
		o1, o2 := r.Perm(len(versions)), r.Perm(len(versions))
		l1, l2 := build(o1), build(o2)
		for key, want := range newest {
			for k, l := range []*Log{l1, l2} {
				l.mtx.RLock()
				got, ok := l.st[key]
				l.mtx.RUnlock()
				if !ok {
					t.Fatalf("seed %d: log %d lost entry %s (delivery order %v)", seed, k+1, key, [][]int{o1, o2}[k])
				}
				if got.Entry.Timestamp.AsTime().UnixNano() != want {
					t.Fatalf("seed %d: log %d holds %s stamped %v, the newest delivered version is %v (delivery order %v)", seed, k+1, key, got.Entry.Timestamp.AsTime(), time.Unix(0, want).UTC(), [][]int{o1, o2}[k])
				}
			}
		}
	}
}
