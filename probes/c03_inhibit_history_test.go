package inhibit

// Replay probe for C03 (run in package inhibit): pseudo-random arrival orders of source-alert versions (firing,
// refreshed, resolved, re-firing) for two rules - one plain, one whose sides overlap - interleaved with cache GC; after
// every step Inhibitor.Mutes for several targets is compared with the existential rule of the property statement
// evaluated over the latest version of every alert. Deterministic seeds; fails with the history that disagrees.

import (
	"context"
	"fmt"
	"math/rand"
	"testing"
	"time"

	"github.com/prometheus/common/model"
	"github.com/prometheus/common/promslog"

	amcommoncfg "github.com/prometheus/alertmanager/config/common"
	"github.com/prometheus/alertmanager/eventrecorder"
	"github.com/prometheus/alertmanager/pkg/labels"
	"github.com/prometheus/alertmanager/types"
)

func TestProbeC03InhibitHistory(t *testing.T) {
	mm := func(n, v string) *labels.Matcher { m, _ := labels.NewMatcher(labels.MatchEqual, n, v); return m }
	rules := []amcommoncfg.InhibitRule{
		{Name: "plain", SourceMatchers: []*labels.Matcher{mm("sev", "crit")}, TargetMatchers: []*labels.Matcher{mm("sev", "warn")}, Equal: []string{"c"}},
		{Name: "overlap", SourceMatchers: []*labels.Matcher{mm("team", "a")}, TargetMatchers: []*labels.Matcher{mm("team", "a")}, Equal: []string{"c", "dc"}},
	}
	universe := []model.LabelSet{
		{"sev": "crit", "c": "1", "inst": "a"}, {"sev": "crit", "c": "1", "inst": "b"}, {"sev": "crit", "c": "2", "inst": "a"},
		{"sev": "crit", "inst": "nolabel"}, {"team": "a", "c": "1", "inst": "x"}, {"team": "a", "c": "1", "inst": "y"}, {"sev": "crit", "team": "a", "c": "2"},
	}
	targets := []model.LabelSet{
		{"sev": "warn", "c": "1"}, {"sev": "warn", "c": "2"}, {"sev": "warn"}, {"sev": "warn", "c": "3"},
		{"team": "a", "c": "1", "inst": "x"}, {"team": "a", "c": "1", "inst": "z"}, {"team": "b", "c": "1"}, {"sev": "warn", "team": "a", "c": "2"},
	}
	ctx := context.Background()
	for seed := int64(1); seed <= 200; seed++ {
		r := rand.New(rand.NewSource(seed))
		ih := NewInhibitor(nil, rules, promslog.NewNopLogger(), eventrecorder.NopRecorder())
		latest := map[model.Fingerprint]*types.Alert{}
		var hist []string
		for step := 0; step < 30; step++ {
			now := time.Now()
			if r.Intn(6) == 0 {
				for _, rule := range ih.rules {
					rule.scache.GC()
				}
				hist = append(hist, "GC")
			} else {
				ls := universe[r.Intn(len(universe))]
				end := now.Add(time.Duration(10+r.Intn(50)) * time.Minute)
				if r.Intn(3) == 0 {
					end = now.Add(-time.Second)
				}
				a := &types.Alert{Alert: model.Alert{Labels: ls, StartsAt: now.Add(-time.Hour), EndsAt: end}, UpdatedAt: now}
				ih.processAlert(ctx, a)
				latest[ls.Fingerprint()] = a
				hist = append(hist, fmt.Sprintf("%v ends%+v", ls, end.Sub(now).Round(time.Minute)))
			}
			for _, tg := range targets {
				want := false
				for _, rule := range ih.rules {
					if !rule.TargetMatchers.Matches(tg) {
						continue
					}
					tgBoth := rule.SourceMatchers.Matches(tg)
					for _, src := range latest {
						if src.Resolved() || !rule.SourceMatchers.Matches(src.Labels) {
							continue
						}
						if tgBoth && rule.TargetMatchers.Matches(src.Labels) {
							continue
						}
						eq := true
						for ln := range rule.Equal {
							if src.Labels[ln] != tg[ln] {
								eq = false
							}
						}
						if eq {
							want = true
						}
					}
				}
				if got := ih.Mutes(ctx, tg); got != want {
					t.Fatalf("seed %d step %d: Mutes(%v) = %v but the existential rule over the currently firing alerts says %v; history: %v", seed, step, tg, got, want, hist)
				}
			}
		}
	}
}
