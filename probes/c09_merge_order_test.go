package silence

// Replay probe for C09 (run in package silence): the same multiset of silence versions (several ids, several
// UpdatedAt per id, some duplicated) is merged into two stores in different pseudo-random orders and batchings; both
// stores must end with, for every id, the version with the newest UpdatedAt. Deterministic seeds.

import (
	"fmt"
	"math/rand"
	"testing"
	"time"

	"github.com/prometheus/client_golang/prometheus"
	"google.golang.org/protobuf/types/known/timestamppb"

	pb "github.com/prometheus/alertmanager/silence/silencepb"
)

func TestProbeC09MergeOrder(t *testing.T) {
	base := time.Now().UTC().Add(-time.Hour)
	for seed := int64(1); seed <= 60; seed++ {
		r := rand.New(rand.NewSource(seed))
		var versions []*pb.MeshSilence
		newest := map[string]int64{}
		for id := 0; id < 4; id++ {
			for v := 0; v < 1+r.Intn(4); v++ {
				upd := base.Add(time.Duration(r.Intn(50)) * time.Minute)
				sid := fmt.Sprintf("id-%d", id)
				ms := &pb.MeshSilence{
					Silence: &pb.Silence{Id: sid, MatcherSets: []*pb.MatcherSet{{Matchers: []*pb.Matcher{{Type: pb.Matcher_EQUAL, Name: "a", Pattern: fmt.Sprint(v)}}}},
						StartsAt: timestamppb.New(base), EndsAt: timestamppb.New(base.Add(time.Duration(3+v) * time.Hour)), UpdatedAt: timestamppb.New(upd), Comment: fmt.Sprintf("v%d@%d", v, upd.Unix())},
					ExpiresAt: timestamppb.New(base.Add(48 * time.Hour)),
				}
				versions = append(versions, ms)
				if r.Intn(3) == 0 {
					versions = append(versions, ms) // duplicate delivery
				}
				if upd.UnixNano() > newest[sid] {
					newest[sid] = upd.UnixNano()
				}
			}
		}
		build := func(order []int) *Silences {
			s, err := New(Options{Retention: time.Hour, Metrics: prometheus.NewRegistry()})
			if err != nil {
				t.Fatal(err)
			}
			s.SetBroadcast(func([]byte) {})
			for i := 0; i < len(order); {
				n := 1 + r.Intn(3)
				var batch []byte
				inBatch := map[string]bool{} // one message carries at most one version per id (it is a peer's state)
				for ; n > 0 && i < len(order) && !inBatch[versions[order[i]].Silence.Id]; n, i = n-1, i+1 {
					inBatch[versions[order[i]].Silence.Id] = true
					b, err := marshalMeshSilence(versions[order[i]])
					if err != nil {
						t.Fatal(err)
					}
					batch = append(batch, b...)
				}
				if err := s.Merge(batch); err != nil {
					t.Fatalf("seed %d: Merge: %v", seed, err)
				}
			}
			return s
		}
		o1, o2 := r.Perm(len(versions)), r.Perm(len(versions))
		s1, s2 := build(o1), build(o2)
		for id, want := range newest {
			for k, s := range []*Silences{s1, s2} {
				got, ok := s.getSilence(id)
				if !ok {
					t.Fatalf("seed %d: store %d lost silence %s (delivery order %v)", seed, k+1, id, [][]int{o1, o2}[k])
				}
				if got.UpdatedAt.AsTime().UnixNano() != want {
					t.Fatalf("seed %d: store %d holds %s updated at %v, the newest delivered version is %v (delivery order %v)", seed, k+1, id, got.UpdatedAt.AsTime(), time.Unix(0, want).UTC(), [][]int{o1, o2}[k])
				}
			}
		}
	}
}
