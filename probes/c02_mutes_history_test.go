package silence

// Replay probe for C02 (run in package silence): pseudo-random histories of Set (create / update), Expire, Merge
// (new ids, newer versions of known ids - including revivals of expired ones - and stale versions), GC, snapshot
// reload and Mutes, over three label sets; after every step the verdict of Silencer.Mutes for each label set is
// compared with a direct evaluation of all stored silences. Deterministic seeds; fails with the history that disagrees.

import (
	"bytes"
	"context"
	"fmt"
	"math/rand"
	"testing"
	"time"

	"github.com/prometheus/client_golang/prometheus"
	"github.com/prometheus/common/model"
	"github.com/prometheus/common/promslog"
	"google.golang.org/protobuf/proto"
	"google.golang.org/protobuf/types/known/timestamppb"

	"github.com/prometheus/alertmanager/eventrecorder"
	"github.com/prometheus/alertmanager/pkg/labels"
	pb "github.com/prometheus/alertmanager/silence/silencepb"
)

func probeBruteForce(s *Silences, lset model.LabelSet) bool {
	s.mtx.RLock()
	defer s.mtx.RUnlock()
	now := time.Now().UTC()
	for _, ms := range s.st {
		if getState(ms.Silence, now) != SilenceStateActive {
			continue
		}
		for _, set := range ms.Silence.MatcherSets {
			all := true
			for _, m := range set.Matchers {
				mt := map[pb.Matcher_Type]labels.MatchType{pb.Matcher_EQUAL: labels.MatchEqual, pb.Matcher_NOT_EQUAL: labels.MatchNotEqual, pb.Matcher_REGEXP: labels.MatchRegexp, pb.Matcher_NOT_REGEXP: labels.MatchNotRegexp}[m.Type]
				lm, err := labels.NewMatcher(mt, m.Name, m.Pattern)
				if err != nil || !lm.Matches(string(lset[model.LabelName(m.Name)])) {
					all = false
					break
				}
			}
			if all {
				return true
			}
		}
	}
	return false
}

func TestProbeC02MutesHistory(t *testing.T) {
	lsets := []model.LabelSet{{"a": "x"}, {"a": "y"}, {"b": "z"}}
	mkMatchers := func(r *rand.Rand) []*pb.MatcherSet {
		switch r.Intn(4) {
		case 0:
			return []*pb.MatcherSet{{Matchers: []*pb.Matcher{{Type: pb.Matcher_EQUAL, Name: "a", Pattern: "x"}}}}
		case 1:
			return []*pb.MatcherSet{{Matchers: []*pb.Matcher{{Type: pb.Matcher_REGEXP, Name: "a", Pattern: "x|y"}}}}
		case 2:
			return []*pb.MatcherSet{{Matchers: []*pb.Matcher{{Type: pb.Matcher_EQUAL, Name: "b", Pattern: "z"}}}}
		}
		return []*pb.MatcherSet{{Matchers: []*pb.Matcher{{Type: pb.Matcher_NOT_EQUAL, Name: "a", Pattern: "x"}, {Type: pb.Matcher_REGEXP, Name: "a", Pattern: ".+"}}}}
	}
	ctx := context.Background()
	for seed := int64(1); seed <= 150; seed++ {
		r := rand.New(rand.NewSource(seed))
		s, err := New(Options{Retention: time.Hour, Metrics: prometheus.NewRegistry()})
		if err != nil {
			t.Fatal(err)
		}
		s.SetBroadcast(func([]byte) {})
		silencer := NewSilencer(s, promslog.NewNopLogger(), eventrecorder.NopRecorder())
		var ids []string
		var hist []string
		for step := 0; step < 40; step++ {
			now := time.Now().UTC()
			switch op := r.Intn(9); op {
			case 0, 1: // create
				sil := &pb.Silence{MatcherSets: mkMatchers(r), EndsAt: timestamppb.New(now.Add(2 * time.Hour))}
				if r.Intn(3) == 0 {
					sil.StartsAt = timestamppb.New(now.Add(time.Hour))
				} else {
					sil.StartsAt = timestamppb.New(now)
				}
				if err := s.Set(ctx, sil); err == nil {
					ids = append(ids, sil.Id)
					hist = append(hist, fmt.Sprintf("Set(new %s start+%v)", sil.Id[:4], sil.StartsAt.AsTime().Sub(now).Round(time.Minute)))
				}
			case 2: // update in place / replace
				if len(ids) > 0 {
					id := ids[r.Intn(len(ids))]
					if old, ok := s.getSilence(id); ok {
						sil := proto.Clone(old).(*pb.Silence)
						sil.EndsAt = timestamppb.New(now.Add(time.Duration(3+r.Intn(3)) * time.Hour))
						if r.Intn(4) == 0 {
							sil.MatcherSets = mkMatchers(r)
						}
						if err := s.Set(ctx, sil); err == nil {
							ids = append(ids, sil.Id)
							hist = append(hist, fmt.Sprintf("Set(update %s -> %s)", id[:4], sil.Id[:4]))
						}
					}
				}
			case 3: // expire
				if len(ids) > 0 {
					id := ids[r.Intn(len(ids))]
					if s.Expire(ctx, id) == nil {
						hist = append(hist, "Expire("+id[:4]+")")
					}
					time.Sleep(20 * time.Microsecond)
				}
			case 4, 5: // merge: newer / stale version of a known id, or a new id
				var e *pb.MeshSilence
				if len(ids) > 0 && r.Intn(4) != 0 {
					id := ids[r.Intn(len(ids))]
					old, ok := s.getSilence(id)
					if !ok {
						continue
					}
					sil := proto.Clone(old).(*pb.Silence)
					if r.Intn(3) == 0 {
						sil.UpdatedAt = timestamppb.New(sil.UpdatedAt.AsTime().Add(-time.Minute)) // stale
						sil.EndsAt = timestamppb.New(now.Add(9 * time.Hour))
						hist = append(hist, "Merge(stale "+id[:4]+")")
					} else {
						sil.UpdatedAt = timestamppb.New(time.Now().UTC().Add(time.Millisecond))
						if r.Intn(2) == 0 {
							sil.EndsAt = timestamppb.New(now.Add(5 * time.Hour)) // extend / revive
							hist = append(hist, "Merge(newer "+id[:4]+" end+5h)")
						} else {
							sil.EndsAt = timestamppb.New(now.Add(-time.Second)) // remote expiry
							if sil.StartsAt.AsTime().After(sil.EndsAt.AsTime()) {
								sil.StartsAt = sil.EndsAt
							}
							hist = append(hist, "Merge(newer "+id[:4]+" ended)")
						}
					}
					e = &pb.MeshSilence{Silence: sil, ExpiresAt: timestamppb.New(sil.EndsAt.AsTime().Add(time.Hour))}
				} else {
					id := fmt.Sprintf("%08x-remote", r.Uint32())
					sil := &pb.Silence{Id: id, MatcherSets: mkMatchers(r), StartsAt: timestamppb.New(now.Add(-time.Minute)), EndsAt: timestamppb.New(now.Add(time.Hour)), UpdatedAt: timestamppb.New(now)}
					e = &pb.MeshSilence{Silence: sil, ExpiresAt: timestamppb.New(now.Add(2 * time.Hour))}
					ids = append(ids, id)
					hist = append(hist, "Merge(new "+id[:4]+")")
				}
				b, err := marshalMeshSilence(e)
				if err != nil {
					t.Fatal(err)
				}
				if err := s.Merge(b); err != nil {
					t.Fatalf("seed %d: Merge: %v", seed, err)
				}
			case 6:
				if _, err := s.GC(); err != nil {
					t.Fatalf("seed %d: GC reports an inconsistent index after %v: %v", seed, hist, err)
				}
				hist = append(hist, "GC")
			case 7: // restart from a snapshot
				var buf bytes.Buffer
				if _, err := s.Snapshot(&buf); err != nil {
					t.Fatal(err)
				}
				s2, err := New(Options{Retention: time.Hour, Metrics: prometheus.NewRegistry(), SnapshotReader: &buf})
				if err != nil {
					t.Fatalf("seed %d: reload: %v", seed, err)
				}
				s2.SetBroadcast(func([]byte) {})
				s = s2
				silencer = NewSilencer(s, promslog.NewNopLogger(), eventrecorder.NopRecorder())
				hist = append(hist, "Reload")
			default:
			}
			for _, l := range lsets {
				got := silencer.Mutes(ctx, l)
				want := probeBruteForce(s, l)
				if got != want {
					t.Fatalf("seed %d step %d: Mutes(%v) = %v but a direct evaluation of the stored silences says %v; history: %v", seed, step, l, got, want, hist)
				}
			}
		}
	}
}
