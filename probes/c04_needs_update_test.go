package notify

// Replay probe for C04 (run in package notify): exhaustive comparison of DedupStage.needsUpdate with the decision
// table of the property statement over all subsets of a 3-alert universe for the previous entry's firing/resolved
// lists and the current firing/resolved sets, send_resolved on/off, entry present/absent and three ages of the
// previous notification. Fails with the first disagreeing input.

import (
	"testing"
	"time"

	"google.golang.org/protobuf/types/known/timestamppb"

	"github.com/prometheus/alertmanager/nflog/nflogpb"
)

type probeSendResolved bool

func (s probeSendResolved) SendResolved() bool { return bool(s) }

func TestProbeC04NeedsUpdate(t *testing.T) {
	now := time.Date(2024, 1, 1, 12, 0, 0, 0, time.UTC)
	repeat := time.Hour
	subsets := func(mask int) (map[uint64]struct{}, []uint64) {
		m := map[uint64]struct{}{}
		var l []uint64
		for b := 0; b < 3; b++ {
			if mask&(1<<b) != 0 {
				m[uint64(b+1)] = struct{}{}
				l = append(l, uint64(b+1))
			}
		}
		return m, l
	}
	sub := func(a map[uint64]struct{}, b []uint64) bool {
		for k := range a {
			found := false
			for _, x := range b {
				if x == k {
					found = true
				}
			}
			if !found {
				return false
			}
		}
		return true
	}
	for _, sr := range []bool{false, true} {
		n := &DedupStage{rs: probeSendResolved(sr)}
		for hasEntry := 0; hasEntry < 2; hasEntry++ {
			for ef := 0; ef < 8; ef++ {
				for er := 0; er < 8; er++ {
					for f := 0; f < 8; f++ {
						for r := 0; r < 8; r++ {
							if f&r != 0 || ef&er != 0 {
								continue
							}
							for _, age := range []time.Duration{repeat - time.Second, repeat, repeat + time.Second} {
								firing, _ := subsets(f)
								resolved, _ := subsets(r)
								var entry *nflogpb.Entry
								if hasEntry == 1 {
									_, efl := subsets(ef)
									_, erl := subsets(er)
									entry = &nflogpb.Entry{FiringAlerts: efl, ResolvedAlerts: erl, Timestamp: timestamppb.New(now.Add(-age))}
								} else if ef != 0 || er != 0 || age != repeat {
									continue
								}
								var want bool
								switch {
								case entry == nil:
									want = len(firing) > 0
								case !sub(firing, entry.FiringAlerts):
									want = true // an alert fires that the previous notification did not list
								case len(firing) == 0:
									want = len(entry.FiringAlerts) > 0 // "all resolved" only directly after a firing notification
								case sr && !sub(resolved, entry.ResolvedAlerts):
									want = true
								default:
									want = age > repeat
								}
								got := n.needsUpdate(entry, firing, resolved, repeat, now) != ReasonDoNotNotify
								if got != want {
									t.Fatalf("needsUpdate(entry=%v, firing=%v, resolved=%v, send_resolved=%v, age=%v, repeat=%v) notifies=%v, the statement says %v", entry, firing, resolved, sr, age, repeat, got, want)
								}
							}
						}
					}
				}
			}
		}
	}
}
