//go:build verif

package labels

// Contracts for govc (contract-based deductive verification). Comment-only file.

// Matcher list evaluation is a deterministic function of the matcher list and the label set
// (its own semantics is property C16). Used as an opaque predicate by routing, silences and inhibition.
//@ func (Matchers).Matches
//@   pure
