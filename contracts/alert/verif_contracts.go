//go:build verif

package alert

// Contracts for govc (contract-based deductive verification). Comment-only file.

// fingerprint of a label set: uninterpreted function of the label-set object (see trusted table)
//@ uf fpL(model.LabelSet) model.Fingerprint
//@ spec fpA(a *Alert) model.Fingerprint = fpL(a.Labels)
//@ spec resolvedAt(a *Alert, now time.Time) bool = a.EndsAt != 0 && a.EndsAt <= now
