//go:build verif

package app

// Contracts for govc (contract-based deductive verification). Comment-only file.

// ---- C17: "a rejected reload leaves the running configuration in force". reload is the coordinator's subscriber
// that rebuilds the configuration-scoped components. Path obligation over its call history: whenever it returns an
// error, it has not stopped the old inhibitor or dispatcher, not published a new one, not updated the API and not
// re-pointed the event recorder - every fallible step comes before the first step that touches a live component.
// Conversely a successful return has published a new inhibitor and a new dispatcher.
//@ func (*reloader).reload
//@   props C17
//@   nosafe
//@   opaque alertmanager/ go.opentelemetry
//@   ensures [rejected-reload-touches-nothing] result != nil ==> !called("inhibit.Inhibitor).Stop") && !called("dispatch.Dispatcher).Stop")
//@             && !called("Inhibitor]).Store") && !called("Dispatcher]).Store") && !called("api.API).Update") && !called("Recorder).ApplyConfig")
//@   ensures [template-error-rejects] called("template.FromGlobs") && ret1("template.FromGlobs") != nil ==> result != nil
//@   ensures [receiver-error-rejects] called("BuildReceiverIntegrations") && ret1("BuildReceiverIntegrations") != nil ==> result != nil
//@   loop 1 invariant called("BuildReceiverIntegrations") ==> ret1("BuildReceiverIntegrations") == nil
//@   ensures [tracing-error-rejects] called("Manager).ApplyConfig") && ret("Manager).ApplyConfig") != nil ==> result != nil
//@   at call inhibit.Inhibitor).Stop assert [stop-the-running-inhibitor] arg0 != nil && arg0 == ret("Inhibitor]).Load")
//@   at call dispatch.Dispatcher).Stop assert [stop-the-running-dispatcher] arg0 != nil && arg0 == ret("Dispatcher]).Load")
//@   ensures [running-components-stopped] result == nil ==> (first("Dispatcher]).Load") != nil ==> called("dispatch.Dispatcher).Stop")) && (first("Inhibitor]).Load") != nil ==> called("inhibit.Inhibitor).Stop"))
//@   at call PipelineBuilder).New assert [pipeline-receivers] arg1 == receivers
//@   at call PipelineBuilder).New assert [pipeline-inhibitor] arg3 == ret("inhibit.NewInhibitor")
//@   at call PipelineBuilder).New assert [pipeline-silencer] arg4 == cell(r).silencer
//@   at call PipelineBuilder).New assert [pipeline-intervener] arg5 == ret("timeinterval.NewIntervener")
//@   at call PipelineBuilder).New assert [pipeline-log] arg7 == cell(r).notificationLog
//@   at call PipelineBuilder).New assert [every-routed-receiver-has-integrations] forall k int :: 0 <= k && k < len(conf.Receivers) && (conf.Receivers[k].Name in activeReceivers) ==> (conf.Receivers[k].Name in receivers)
//@   at call timeinterval.NewIntervener assert [every-named-interval-known] (forall k int :: 0 <= k && k < len(conf.MuteTimeIntervals) ==> (conf.MuteTimeIntervals[k].Name in arg0)) && (forall k int :: 0 <= k && k < len(conf.TimeIntervals) ==> (conf.TimeIntervals[k].Name in arg0))
//@   at call dispatch.NewDispatcher assert [dispatcher-routes] arg1 == ret("dispatch.NewRoute")
//@   at call dispatch.NewDispatcher assert [dispatcher-pipeline] typeis(arg2, notify.RoutingStage) && unbox(arg2, notify.RoutingStage) == ret("PipelineBuilder).New")
//@   loop 1 invariant rangeindex < len(conf.Receivers)
//@   loop 1 invariant forall k int :: 0 <= k && k <= rangeindex && (conf.Receivers[k].Name in activeReceivers) ==> (conf.Receivers[k].Name in receivers)
//@   loop 2 invariant rangeindex < len(conf.MuteTimeIntervals) && fresh(timeIntervals) && (forall k int :: 0 <= k && k <= rangeindex ==> (conf.MuteTimeIntervals[k].Name in timeIntervals))
//@   loop 2 invariant forall k int :: 0 <= k && k < len(conf.Receivers) && (conf.Receivers[k].Name in activeReceivers) ==> (conf.Receivers[k].Name in receivers)
//@   loop 3 invariant rangeindex < len(conf.TimeIntervals) && fresh(timeIntervals) && (forall k int :: 0 <= k && k < len(conf.MuteTimeIntervals) ==> (conf.MuteTimeIntervals[k].Name in timeIntervals)) && (forall k int :: 0 <= k && k <= rangeindex ==> (conf.TimeIntervals[k].Name in timeIntervals))
//@   loop 3 invariant forall k int :: 0 <= k && k < len(conf.Receivers) && (conf.Receivers[k].Name in activeReceivers) ==> (conf.Receivers[k].Name in receivers)
//@   noeffect BuildReceiverIntegrations Logger).Info Logger).With Manager).ApplyConfig Recorder).ApplyConfig Inhibitor).Stop Dispatcher).Stop inhibit.NewInhibitor timeinterval.NewIntervener ]).Load Gauge).Set
//@   ensures [success-publishes-both] result == nil ==> called("Inhibitor]).Store") && called("Dispatcher]).Store") && called("api.API).Update")
//@   at call inhibit.Inhibitor).Stop assert [tracing-applied-before-stopping] called("Manager).ApplyConfig") && ret("Manager).ApplyConfig") == nil
//@   at call dispatch.Dispatcher).Stop assert [tracing-applied-before-stopping-dispatcher] called("Manager).ApplyConfig") && ret("Manager).ApplyConfig") == nil
//@   at call Dispatcher]).Store assert [dispatcher-published-after-loading] called("Dispatcher).WaitForLoading")
//@   at call Inhibitor]).Store assert [inhibitor-published-after-loading] called("Inhibitor).WaitForLoading")

// the status callback handed to the API consults both muters (inhibitor first, then silencer), so the status the API
// reports is the one the pipeline's mute stages would compute
//@ func (*reloader).reload$2
//@   props C02 C03
//@   nosafe
//@   ensures [both-muters-consulted] called("Inhibitor).Mutes") && called("Silencer).Mutes")
//@   at call Silencer).Mutes assert [same-alert] arg2 == labels
//@   at call Inhibitor).Mutes assert [same-alert-inhibitor] arg2 == labels
//@   noeffect Inhibitor).Mutes Silencer).Mutes
// every route of the new tree marks its receiver as in use (so its integrations get built)
//@ func (*reloader).reload$1
//@   props C17 C07
//@   requires rt != nil && activeReceivers != nil && deref(activeReceivers) != nil
//@   ensures [receiver-marked] rt.RouteOpts.Receiver in deref(activeReceivers)
//@   ensures [others-kept] forall k string :: old(k in deref(activeReceivers)) ==> (k in deref(activeReceivers))
