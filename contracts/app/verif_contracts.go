//go:build verif

package app

// Contracts for govc (contract-based deductive verification). Comment-only file.

// ---- C17: "a rejected reload leaves the running configuration in force". reload is the coordinator's subscriber
// that rebuilds the configuration-scoped components. Path obligation over its call history: whenever it returns an
// error, it has not stopped the old inhibitor or dispatcher, not published a new one, not updated the API and not
// re-pointed the event recorder - every fallible step comes before the first step that touches a live component.
// Conversely a successful return has published a new inhibitor and a new dispatcher.
//@ func (*reloader).reload
//@   props C17
//@   nosafe
//@   opaque alertmanager/ go.opentelemetry
//@   ensures [rejected-reload-touches-nothing] result != nil ==> !called("inhibit.Inhibitor).Stop") && !called("dispatch.Dispatcher).Stop")
//@             && !called("Inhibitor]).Store") && !called("Dispatcher]).Store") && !called("api.API).Update") && !called("Recorder).ApplyConfig")
//@   ensures [success-publishes-both] result == nil ==> called("Inhibitor]).Store") && called("Dispatcher]).Store") && called("api.API).Update")
//@   at call inhibit.Inhibitor).Stop assert [tracing-applied-before-stopping] called("Manager).ApplyConfig") && ret("Manager).ApplyConfig") == nil
//@   at call dispatch.Dispatcher).Stop assert [tracing-applied-before-stopping-dispatcher] called("Manager).ApplyConfig") && ret("Manager).ApplyConfig") == nil
//@   at call Dispatcher]).Store assert [dispatcher-published-after-loading] called("Dispatcher).WaitForLoading")
//@   at call Inhibitor]).Store assert [inhibitor-published-after-loading] called("Inhibitor).WaitForLoading")
