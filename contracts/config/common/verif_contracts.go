//go:build verif

package common

// Contracts for govc (contract-based deductive verification). Comment-only file.

// ---- C17: secret masking at the marshalers of the secret URL types. Unless the process-wide debugging switch
// MarshalSecretValue is on, a set secret prints as the fixed token and an unset one as nothing (YAML) or as the empty
// string (JSON); the secret itself is never handed to the encoder.
//@ func (SecretURL).MarshalYAML
//@   props C17
//@   ensures [masked] !config.MarshalSecretValue ==> result1 == nil && (s.URL != nil ? (typeis(result0, string) && unbox(result0, string) == "<secret>") : result0 == nil)
//@   at call URL).String assert [secret-rendered-only-in-debug-mode] config.MarshalSecretValue
//@   assigns nothing
//@ func (SecretURL).MarshalJSON
//@   props C17
//@   at call json.Marshal assert [masked] !config.MarshalSecretValue ==> typeis(arg0, string) && (unbox(arg0, string) == "<secret>" || unbox(arg0, string) == "")
//@   at call URL).String assert [secret-rendered-only-in-debug-mode] config.MarshalSecretValue
//@ func (SecretTemplateURL).MarshalYAML
//@   props C17
//@   ensures [masked] !config.MarshalSecretValue ==> result1 == nil && (s != "" ? (typeis(result0, string) && unbox(result0, string) == "<secret>") : result0 == nil)
//@   assigns nothing
