//go:build verif

package notify

// Contracts for govc (contract-based deductive verification). Comment-only file.

//@ func (ResolvedSender).SendResolved
//@   pure

// C04: the decision table of the property statement, as an iff over all inputs.
//@ func (*DedupStage).needsUpdate
//@   props C04
//@   requires n != nil && n.rs != nil
//@   ensures [table] (result != ReasonDoNotNotify) ==
//@        (  (entry == nil && len(firing) > 0)
//@        || (entry != nil && !subsetOfSlice(firing, entry.FiringAlerts))
//@        || (entry != nil && subsetOfSlice(firing, entry.FiringAlerts) && len(firing) == 0 && len(entry.FiringAlerts) > 0)
//@        || (entry != nil && subsetOfSlice(firing, entry.FiringAlerts) && len(firing) > 0 && n.rs.SendResolved()
//@                         && !subsetOfSlice(resolved, entry.ResolvedAlerts))
//@        || (entry != nil && subsetOfSlice(firing, entry.FiringAlerts) && len(firing) > 0
//@                         && tsT(entry.Timestamp) < now - repeat) )
//@   ensures [first] result == ReasonFirstNotification ==> (entry == nil || len(entry.FiringAlerts) == 0)
//@   ensures [range] result >= 0 && result <= 5
//@   assigns nothing

// ---- C15: gating of a flush by the route's mute / active time intervals.
// muted flushes send nothing and the marker records exactly the muting interval names; otherwise the alerts pass
// through untouched and the marker is cleared.
//@ func (TimeMuteStage).Exec
//@   props C15
//@   requires tms.muter != nil && tms.marker != nil && tms.metrics != nil && tms.metrics.numNotificationSuppressedTotal != nil && l != nil && tracer != nil && ctx != nil
//@   after call Tracer).Start assume res0 != nil && res1 != nil
//@   after call WithLabelValues assume res0 != nil
//@   ensures [muted-sends-nothing] called("TimeMuter).Mutes") && ret2("TimeMuter).Mutes") == nil && ret("TimeMuter).Mutes") ==> result2 == nil && result1 == nil
//@   ensures [not-muted-passes] result2 == nil && !(called("TimeMuter).Mutes") && ret("TimeMuter).Mutes")) && called("SetMuted") ==> result1 == alerts
//@   ensures [decided-by-intervals] result2 == nil && result1 == nil && alerts != nil ==> called("TimeMuter).Mutes") && ret("TimeMuter).Mutes")
//@   at call SetMuted assert [marker-names] called("TimeMuter).Mutes") ? arg3 == ret1("TimeMuter).Mutes") : arg3 == nil
//@   noeffect TimeMuter).Mutes SetMuted
//@   assigns nothing

//@ func (TimeActiveStage).Exec
//@   props C15
//@   requires tas.muter != nil && tas.marker != nil && tas.metrics != nil && tas.metrics.numNotificationSuppressedTotal != nil && l != nil && tracer != nil && ctx != nil
//@   after call Tracer).Start assume res0 != nil && res1 != nil
//@   after call WithLabelValues assume res0 != nil
//@   ensures [inactive-sends-nothing] called("TimeMuter).Mutes") && ret2("TimeMuter).Mutes") == nil && !ret("TimeMuter).Mutes") ==> result2 == nil && result1 == nil
//@   ensures [active-passes] result2 == nil && called("TimeMuter).Mutes") && ret("TimeMuter).Mutes") ==> result1 == alerts
//@   ensures [no-active-intervals-passes] result2 == nil && !called("TimeMuter).Mutes") && called("SetMuted") ==> result1 == alerts
//@   ensures [decided-by-intervals] result2 == nil && result1 == nil && alerts != nil ==> called("TimeMuter).Mutes") && !ret("TimeMuter).Mutes")
//@   at call SetMuted assert [marker-names] (called("TimeMuter).Mutes") && !ret("TimeMuter).Mutes")) ? len(arg3) > 0 : arg3 == nil
//@   noeffect TimeMuter).Mutes SetMuted
//@   assigns nothing

// ---- C05 / C20: one integration's delivery inside a flush (ticker and select are abstracted: any interleaving of
// ticks and context cancellation is allowed, so everything below holds for all of them).
//@ spec resolvedAtN(a *alert.Alert, now time.Time) bool = a.EndsAt != 0 && a.EndsAt <= now
//@ func (RetryStage).exec
//@   props C05 C20
//@   abstract
//@   requires r.metrics != nil && l != nil && ctx != nil && tracer != nil
//@            && r.metrics.notificationLatencySeconds != nil && r.metrics.numNotificationRequestsTotal != nil && r.metrics.numNotificationRequestsFailedTotal != nil
//@   requires forall j int :: 0 <= j && j < len(alerts) ==> alerts[j] != nil
//@   after call WithLabelValues assume res0 != nil
//@   after call Logger).With assume res0 != nil
//@   after call v5.NewTicker assume res0 != nil
//@   after call v5.NewExponentialBackOff assume res0 != nil
//@   at call Integration).Notify assert [send-resolved-sends-all] ret("Integration).SendResolved") ==> arg2 == alerts
//@   at call Integration).Notify assert [no-resolved-when-off] !ret("Integration).SendResolved") ==> (forall i int :: 0 <= i && i < len(arg2) ==> arg2[i] != nil && !resolvedAtN(arg2[i], first("time.Now")))
//@   at call Integration).Notify assert [sent-are-batch-alerts] forall i int :: 0 <= i && i < len(arg2) ==> (exists j int :: 0 <= j && j < len(alerts) && arg2[i] == alerts[j])
//@   at call Integration).Notify assert [no-send-after-final-outcome] !called("Integration).Notify") || (ret1("Integration).Notify") != nil && ret("Integration).Notify"))
//@   ensures [success-means-delivered] result2 == nil && called("Integration).Notify") && result1 != nil ==> ret1("Integration).Notify") == nil && result1 == alerts
//@   ensures [unrecoverable-fails] called("Integration).Notify") && ret1("Integration).Notify") != nil && !ret("Integration).Notify") ==> result2 != nil
//@   ensures [input-untouched] forall j int :: 0 <= j && j < len(alerts) ==> alerts[j] == old(alerts[j])
//@   ensures [nothing-to-send] !called("Integration).Notify") && result2 == nil && result1 != nil ==> !ret("Integration).SendResolved") && result1 == alerts
//@   loop 1 invariant rangeindex < len(alerts) && (sent == nil || fresh(sent)) && (called("time.Now") ==> first("time.Now") <= clock()) && (!called("time.Now") ==> len(sent) == 0)
//@   loop 1 invariant forall i int :: 0 <= i && i < len(sent) ==> sent[i] != nil && !resolvedAtN(sent[i], first("time.Now")) && (exists j int :: 0 <= j && j < len(alerts) && sent[i] == alerts[j])
//@   loop 1 invariant forall j int :: 0 <= j && j < len(alerts) ==> alerts[j] == old(alerts[j])
//@   loop 2 invariant !called("Integration).Notify") || (ret1("Integration).Notify") != nil && ret("Integration).Notify"))
//@   loop 2 invariant forall j int :: 0 <= j && j < len(alerts) ==> alerts[j] == old(alerts[j])
//@   loop 2 invariant !ret("Integration).SendResolved") ==> (forall i int :: 0 <= i && i < len(sent) ==> sent[i] != nil && !resolvedAtN(sent[i], first("time.Now")))
//@   loop 2 invariant !ret("Integration).SendResolved") ==> called("time.Now") || len(sent) == 0
//@   noeffect Integration).Notify RecordEvent Integration).SendResolved Integration).String
