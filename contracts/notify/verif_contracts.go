//go:build verif

package notify

// Contracts for govc (contract-based deductive verification). Comment-only file.

//@ func (ResolvedSender).SendResolved
//@   pure

// C04: the decision table of the property statement, as an iff over all inputs.
//@ func (*DedupStage).needsUpdate
//@   props C04
//@   requires n != nil && n.rs != nil
//@   ensures [table] (result != ReasonDoNotNotify) ==
//@        (  (entry == nil && len(firing) > 0)
//@        || (entry != nil && !subsetOfSlice(firing, entry.FiringAlerts))
//@        || (entry != nil && subsetOfSlice(firing, entry.FiringAlerts) && len(firing) == 0 && len(entry.FiringAlerts) > 0)
//@        || (entry != nil && subsetOfSlice(firing, entry.FiringAlerts) && len(firing) > 0 && n.rs.SendResolved()
//@                         && !subsetOfSlice(resolved, entry.ResolvedAlerts))
//@        || (entry != nil && subsetOfSlice(firing, entry.FiringAlerts) && len(firing) > 0
//@                         && tsT(entry.Timestamp) < now - repeat) )
//@   ensures [first] result == ReasonFirstNotification ==> (entry == nil || len(entry.FiringAlerts) == 0)
//@   ensures [range] result >= 0 && result <= 5
//@   assigns nothing

// ---- C15: gating of a flush by the route's mute / active time intervals.
// muted flushes send nothing and the marker records exactly the muting interval names; otherwise the alerts pass
// through untouched and the marker is cleared.
//@ func (TimeMuteStage).Exec
//@   props C15
//@   requires tms.muter != nil && tms.marker != nil && tms.metrics != nil && tms.metrics.numNotificationSuppressedTotal != nil && l != nil && tracer != nil && ctx != nil
//@   after call Tracer).Start assume res0 != nil && res1 != nil
//@   after call WithLabelValues assume res0 != nil
//@   ensures [muted-sends-nothing] called("TimeMuter).Mutes") && ret2("TimeMuter).Mutes") == nil && ret("TimeMuter).Mutes") ==> result2 == nil && result1 == nil
//@   ensures [not-muted-passes] result2 == nil && !(called("TimeMuter).Mutes") && ret("TimeMuter).Mutes")) && called("SetMuted") ==> result1 == alerts
//@   ensures [decided-by-intervals] result2 == nil && result1 == nil && alerts != nil ==> called("TimeMuter).Mutes") && ret("TimeMuter).Mutes")
//@   at call SetMuted assert [marker-names] called("TimeMuter).Mutes") ? arg3 == ret1("TimeMuter).Mutes") : arg3 == nil
//@   noeffect TimeMuter).Mutes SetMuted
//@   assigns nothing

//@ func (TimeActiveStage).Exec
//@   props C15
//@   requires tas.muter != nil && tas.marker != nil && tas.metrics != nil && tas.metrics.numNotificationSuppressedTotal != nil && l != nil && tracer != nil && ctx != nil
//@   after call Tracer).Start assume res0 != nil && res1 != nil
//@   after call WithLabelValues assume res0 != nil
//@   ensures [inactive-sends-nothing] called("TimeMuter).Mutes") && ret2("TimeMuter).Mutes") == nil && !ret("TimeMuter).Mutes") ==> result2 == nil && result1 == nil
//@   ensures [active-passes] result2 == nil && called("TimeMuter).Mutes") && ret("TimeMuter).Mutes") ==> result1 == alerts
//@   ensures [no-active-intervals-passes] result2 == nil && !called("TimeMuter).Mutes") && called("SetMuted") ==> result1 == alerts
//@   ensures [decided-by-intervals] result2 == nil && result1 == nil && alerts != nil ==> called("TimeMuter).Mutes") && !ret("TimeMuter).Mutes")
//@   at call SetMuted assert [marker-names] (called("TimeMuter).Mutes") && !ret("TimeMuter).Mutes")) ? len(arg3) > 0 : arg3 == nil
//@   noeffect TimeMuter).Mutes SetMuted
//@   assigns nothing
