//go:build verif

package notify

// Contracts for govc (contract-based deductive verification). Comment-only file.

//@ func (ResolvedSender).SendResolved
//@   pure

// C04: the decision table of the property statement, as an iff over all inputs.
//@ func (*DedupStage).needsUpdate
//@   props C04
//@   requires n != nil && n.rs != nil
//@   ensures [table] (result != ReasonDoNotNotify) ==
//@        (  (entry == nil && len(firing) > 0)
//@        || (entry != nil && !subsetOfSlice(firing, entry.FiringAlerts))
//@        || (entry != nil && subsetOfSlice(firing, entry.FiringAlerts) && len(firing) == 0 && len(entry.FiringAlerts) > 0)
//@        || (entry != nil && subsetOfSlice(firing, entry.FiringAlerts) && len(firing) > 0 && n.rs.SendResolved()
//@                         && !subsetOfSlice(resolved, entry.ResolvedAlerts))
//@        || (entry != nil && subsetOfSlice(firing, entry.FiringAlerts) && len(firing) > 0
//@                         && tsT(entry.Timestamp) < now - repeat) )
//@   ensures [first] result == ReasonFirstNotification ==> (entry == nil || len(entry.FiringAlerts) == 0)
//@   ensures [range] result >= 0 && result <= 5
//@   assigns nothing
