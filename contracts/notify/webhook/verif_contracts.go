//go:build verif

package webhook

// Contracts for govc (contract-based deductive verification). Comment-only file.

// C20: with max_alerts set and exceeded, the first max_alerts alerts are sent and the number dropped is reported;
// otherwise the batch is sent whole and nothing is reported as dropped.
//@ func truncateAlerts
//@   props C20
//@   ensures [truncated] maxAlerts != 0 && len(alerts) > maxAlerts ==> len(result0) == maxAlerts && result1 == len(alerts) - maxAlerts && base(result0) == base(alerts)
//@             && (forall i int :: 0 <= i && i < len(result0) ==> result0[i] == alerts[i])
//@   ensures [whole] !(maxAlerts != 0 && len(alerts) > maxAlerts) ==> result0 == alerts && result1 == 0
//@   ensures [accounted] len(result0) + result1 == len(alerts)
//@   assigns nothing
