//go:build verif

package api

// Contracts for govc (contract-based deductive verification). Comment-only file.

// ---- C18: the concurrency limit of GET requests (a counting semaphore: a buffered channel). A GET is served only
// after a slot was taken, and the slot is given back when serving ends (deferred, so also when the handler panics);
// a GET that finds no slot is answered 503 and not served; other methods are served without a slot. The channel
// itself (capacity = configured limit) is the runtime's: select is an arbitrary choice here.
//@ func (*API).limitHandler$1
//@   props C18
//@   nosafe
//@   noeffect Handler).ServeHTTP http.Error Gauge).Inc Gauge).Dec Counter).Inc
//@   at call Handler).ServeHTTP assert [get-served-only-with-a-slot] req.Method == "GET" ==> called("select") && ret("select") == 0 && count("Gauge).Inc") == 1
//@   at call http.Error assert [refusal-is-503] arg2 == 503 && req.Method == "GET" && ret("select") != 0
//@   ensures [refused-get-is-not-served] req.Method == "GET" && called("select") && ret("select") != 0 ==> !called("Handler).ServeHTTP") && called("http.Error") && called("Counter).Inc")
//@   ensures [slot-given-back] count("Gauge).Inc") == count("Gauge).Dec") && count("chan.recv") == count("Gauge).Inc")
//@   ensures [others-served-without-slot] req.Method != "GET" ==> called("Handler).ServeHTTP") && !called("select")
