//go:build verif

package silence

// Contracts for govc (contract-based deductive verification). Comment-only file.

// ---- silence state at an instant: pending before start, expired strictly after end, active in between (end inclusive).
//@ spec stateAt(sil *pb.Silence, ts time.Time) SilenceState =
//@     ts < tsT(sil.StartsAt) ? SilenceStatePending : (ts > tsT(sil.EndsAt) ? SilenceStateExpired : SilenceStateActive)
//@ func getState
//@   props C02 C12 C09
//@   requires sil != nil
//@   ensures [table] result == stateAt(sil, ts)
//@   assigns nothing

// ---- replicated state: last-writer-wins on UpdatedAt, entries past their retention refused.
//@ spec wfSil(e *pb.MeshSilence) bool = e != nil && e.Silence != nil
//@ spec wfSilState(s state) bool = forall k string :: k in s ==> (s[k] != nil && s[k].Silence != nil)
//@ spec sAccepts(s state, e *pb.MeshSilence, now time.Time) bool =
//@     tsT(e.ExpiresAt) >= now && (!(e.Silence.Id in s) || tsT(s[e.Silence.Id].Silence.UpdatedAt) < tsT(e.Silence.UpdatedAt))

//@ func (state).merge
//@   props C09 C02 C12
//@   requires wfSil(e) && wfSilState(s) && s != nil
//@   assumes len(e.Silence.Comments) > 0 ==> e.Silence.Comments[0] != nil
//@   ensures [changed] result0 == old(sAccepts(s, e, now))
//@   ensures [added] result1 == (old(sAccepts(s, e, now)) && !old(e.Silence.Id in s))
//@   ensures [accepted] old(sAccepts(s, e, now)) ==> dom(s) == setadd(old(dom(s)), old(e.Silence.Id)) && vals(s) == upd(old(vals(s)), old(e.Silence.Id), e)
//@   ensures [refused] !old(sAccepts(s, e, now)) ==> dom(s) == old(dom(s)) && vals(s) == old(vals(s))
//@   ensures [identity] e.Silence == old(e.Silence) && e.ExpiresAt == old(e.ExpiresAt) && e.Silence.Id == old(e.Silence.Id)
//@             && e.Silence.UpdatedAt == old(e.Silence.UpdatedAt) && e.Silence.StartsAt == old(e.Silence.StartsAt) && e.Silence.EndsAt == old(e.Silence.EndsAt)
//@             && e.Silence.MatcherSets == old(e.Silence.MatcherSets)
//@   ensures [comments] len(e.Silence.Comments) == 0 || e.Silence.Comments == old(e.Silence.Comments)
//@   ensures [wf] wfSilState(s)
//@   ensures [view] forall t arr[string]int :: (forall k2 string :: old(k2 in s) ==> t[k2] == old(tsT(s[k2].Silence.UpdatedAt))) ==>
//@               dom(s) == aDom(old(dom(s)), t, old(e.Silence.Id), tsT(e.Silence.UpdatedAt), tsT(e.ExpiresAt), now)
//@            && (forall k2 string :: k2 in s ==> tsT(s[k2].Silence.UpdatedAt) == aTs(old(dom(s)), t, old(e.Silence.Id), tsT(e.Silence.UpdatedAt), tsT(e.ExpiresAt), now)[k2])
//@   assigns s[*], e.Silence.Comment, e.Silence.CreatedBy, e.Silence.Comments

//@ func (*Silences).nowUTC
//@   inline
//@ func (*Silences).updateSizeMetrics
//@   inline
// logging helper (string building over the matchers): assumed to have no effect on the modelled state
//@ func (*Silences).logSilence
//@   trusted
//@   assigns nothing

// decodeState reads length-delimited protobuf records; the codec is outside the verified subset. Assumed (codec axiom):
// on success a fresh map of fresh, well-formed silences stored under their own id.
//@ func decodeState
//@   trusted
//@   ensures result1 == nil ==> result0 != nil && fresh(result0) && (forall k string :: k in result0 ==> wfSil(result0[k]) && result0[k].Silence.Id == k && fresh(result0[k]) && fresh(result0[k].Silence))
//@   ensures result1 != nil ==> result0 == nil
//@   assigns nothing

//@ spec wfMatchers(sil *pb.Silence) bool = forall i int :: 0 <= i && i < len(sil.MatcherSets) ==>
//@     (sil.MatcherSets[i] != nil && (forall j int :: 0 <= j && j < len(sil.MatcherSets[i].Matchers) ==> sil.MatcherSets[i].Matchers[j] != nil))

// compile a silence's matchers into the index: on success exactly the entry for s.Id is (re)written, on error nothing changes.
//@ func (matcherIndex).add
//@   props C02 C09 C12
//@   requires s != nil && c != nil
//@   ensures [ok] result1 == nil ==> dom(c) == setadd(old(dom(c)), s.Id) && vals(c) == upd(old(vals(c)), s.Id, result0)
//@   ensures [err] result1 != nil ==> dom(c) == old(dom(c)) && vals(c) == old(vals(c))
//@   loop 1 invariant fresh(matcherSet)
//@   assigns c[*]
//@   nosafe

// C12: which edits may keep the id. Equal matcher sets; an active silence keeps its start (to the second) and does not
// end in the past; a pending one does not start in the past; an expired one is never updated.
// equality of the two silences' matcher sets (slices.EqualFunc over proto.Equal) is an opaque predicate here
//@ uf matchersEq(*pb.Silence, *pb.Silence) bool
//@ func canUpdate
//@   props C12
//@   requires a != nil && b != nil
//@   after call slices.EqualFunc assume res0 == matchersEq(a, b)
//@   ensures [table] result == ( matchersEq(a, b)
//@        && stateAt(a, now) != SilenceStateExpired
//@        && (stateAt(a, now) == SilenceStateActive ==> tsT(a.StartsAt).Unix() == tsT(b.StartsAt).Unix() && tsT(b.EndsAt) >= now)
//@        && (stateAt(a, now) == SilenceStatePending ==> tsT(b.StartsAt) >= now) )
//@   ensures [expired-never] stateAt(a, now) == SilenceStateExpired ==> !result
//@   assigns nothing
//@   noeffect slices.EqualFunc

// ---- representation invariant of the silence store (the parts the replicated-merge and lifecycle proofs need):
// every stored silence is well-formed and filed under its own id; versions in the version index never exceed the
// store's version counter.
//@ spec inVi(vi versionIndex, id string) bool = exists i int :: 0 <= i && i < len(vi) && vi[i].id == id
//@ spec storeInv(s *Silences) bool = s.st != nil && s.mi != nil
//@     && (forall k string :: k in s.st ==> (s.st[k] != nil && s.st[k].Silence != nil && s.st[k].Silence.Id == k))
//@ spec metricsOK(s *Silences) bool = s.metrics != nil && (s.metrics.stateSize != nil ==> s.metrics.matcherIndexSize != nil && s.metrics.versionIndexSize != nil)
//@ spec updAt(s *Silences, k string) time.Time = tsT(s.st[k].Silence.UpdatedAt)

// indexing a silence: bumps the version, appends (version, id) to the version index without disturbing earlier
// entries, and (re)compiles its matchers into the matcher index; nothing else changes.
//@ func (*Silences).indexSilence
//@   props C02 C09 C12
//@   requires s != nil && s.mi != nil && sil != nil && s.metrics != nil && s.metrics.matcherCompileIndexSilenceErrorsTotal != nil && s.logger != nil
//@   ensures [version] s.version == old(s.version) + 1
//@   ensures [appended] len(s.vi) == old(len(s.vi)) + 1 && s.vi[len(s.vi) - 1].id == sil.Id && s.vi[len(s.vi) - 1].version == s.version
//@   ensures [prefix] forall i int :: 0 <= i && i < old(len(s.vi)) ==> s.vi[i] == old(s.vi[i])
//@   ensures [mi-others] forall id string :: id != sil.Id ==> (id in s.mi) == old(id in s.mi) && s.mi[id] == old(s.mi[id])
//@   ensures [fields] s.st == old(s.st) && s.mi == old(s.mi)
//@   assigns s.version, s.vi, s.vi[*], s.mi[*]

// C09: merging a received batch. Never replaces a newer version by an older one, never accepts a version past its
// retention, keeps ids it does not mention, re-gossips only what actually changed the state, and indexes every
// silence it adds exactly once (so it becomes visible to queries and to the silencer).
//@ func (*Silences).Merge
//@   props C09 C02
//@   requires s != nil && storeInv(s) && s.broadcast != nil && s.metrics != nil && s.metrics.propagatedMessagesTotal != nil
//@            && s.metrics.matcherCompileIndexSilenceErrorsTotal != nil && s.logger != nil && metricsOK(s)
//@   ensures [inv] storeInv(s)
//@   ensures [monotone] forall k string :: old(k in s.st) ==> k in s.st && updAt(s, k) >= old(updAt(s, k))
//@   ensures [newer-only] forall k string :: old(k in s.st) && s.st[k] != old(s.st[k]) ==> updAt(s, k) > old(updAt(s, k))
//@   ensures [unexpired-only] forall k string :: k in s.st && (!old(k in s.st) || s.st[k] != old(s.st[k])) ==> tsT(s.st[k].ExpiresAt) >= ret("nowUTC")
//@   ensures [error-unchanged] result != nil ==> dom(s.st) == old(dom(s.st)) && vals(s.st) == old(vals(s.st)) && s.version == old(s.version)
//@   ensures [indexed-once-per-added] count("indexSilence") == counttrue1("state).merge")
//@   at call broadcast assert [gossip-only-changes] ret("state).merge")
//@   at call indexSilence assert [index-the-added] ret1("state).merge")
//@   loop 1 invariant s.st == old(s.st) && s.mi == old(s.mi) && storeInv(s) && s.st != st
//@   loop 1 invariant forall k string :: old(k in s.st) ==> k in s.st && updAt(s, k) >= old(updAt(s, k))
//@   loop 1 invariant forall k string :: old(k in s.st) && s.st[k] != old(s.st[k]) ==> updAt(s, k) > old(updAt(s, k))
//@   loop 1 invariant forall k string :: k in s.st && (!old(k in s.st) || s.st[k] != old(s.st[k])) ==> tsT(s.st[k].ExpiresAt) >= ret("nowUTC")
//@   loop 1 invariant forall k string :: k in st ==> st[k] != nil && st[k].Silence != nil && st[k].Silence.Id == k
//@   loop 1 invariant forall k string :: k in st ==> fresh(st[k].Silence)
//@   loop 1 invariant s.version >= old(s.version)
//@   loop 1 invariant count("indexSilence") == counttrue1("state).merge")
//@   assigns s.st[*], s.mi[*], s.vi, s.vi[*], s.version, silencepb.Silence.Comment, silencepb.Silence.CreatedBy, silencepb.Silence.Comments
//@   noeffect broadcast

// setSilence: offer a locally built silence to the same last-writer-wins merge as replicated ones; index it when it
// is new; gossip it when it changed the state. A marshalling error leaves everything untouched.
//@ func (*Silences).setSilence
//@   props C12 C02 C09
//@   requires s != nil && storeInv(s) && wfSil(msil) && s.broadcast != nil && s.metrics != nil && metricsOK(s)
//@            && s.metrics.matcherCompileIndexSilenceErrorsTotal != nil && s.logger != nil
//@   assumes len(msil.Silence.MatcherSets) > 0 ==> msil.Silence.MatcherSets[0] != nil
//@   ensures [err] result2 != nil ==> !result0 && !result1 && dom(s.st) == old(dom(s.st)) && vals(s.st) == old(vals(s.st)) && s.version == old(s.version) && s.vi == old(s.vi) && !called("broadcast")
//@   ensures [changed] result2 == nil ==> result0 == old(sAccepts(s.st, msil, now)) && result1 == (result0 && !old(msil.Silence.Id in s.st))
//@   ensures [stored] result2 == nil && result0 ==> dom(s.st) == setadd(old(dom(s.st)), old(msil.Silence.Id)) && vals(s.st) == upd(old(vals(s.st)), old(msil.Silence.Id), msil)
//@   ensures [unchanged] result2 == nil && !result0 ==> dom(s.st) == old(dom(s.st)) && vals(s.st) == old(vals(s.st))
//@   ensures [indexed] result1 ==> s.version == old(s.version) + 1 && len(s.vi) == old(len(s.vi)) + 1 && s.vi[len(s.vi) - 1].id == msil.Silence.Id
//@   ensures [not-indexed] !result1 ==> s.version == old(s.version) && s.vi == old(s.vi) && dom(s.mi) == old(dom(s.mi))
//@   ensures [gossip] called("broadcast") == (result2 == nil && result0)
//@   ensures [identity] msil.Silence == old(msil.Silence) && msil.ExpiresAt == old(msil.ExpiresAt) && msil.Silence.Id == old(msil.Silence.Id)
//@             && msil.Silence.UpdatedAt == old(msil.Silence.UpdatedAt) && msil.Silence.StartsAt == old(msil.Silence.StartsAt) && msil.Silence.EndsAt == old(msil.Silence.EndsAt)
//@             && msil.Silence.MatcherSets == old(msil.Silence.MatcherSets)
//@   ensures [inv] storeInv(s) && s.st == old(s.st) && s.mi == old(s.mi)
//@   assigns s.st[*], s.mi[*], s.vi, s.vi[*], s.version, msil.Silence.Comment, msil.Silence.CreatedBy, msil.Silence.Comments
//@   noeffect broadcast

//@ func (*Silences).getSilence
//@   inline
//@ func (*Silences).toMeshSilence
//@   inline
//@ func cloneSilence
//@   inline

// C12: expiring. Unknown id -> ErrNotFound, nothing changes. Already expired -> nothing changes (idempotent).
// Otherwise the stored version is replaced by a copy with the same id and matchers whose end (and, if it was
// pending, start) is the expiry instant, so it is expired at every later instant.
//@ func (*Silences).expire
//@   props C12 C02
//@   requires s != nil && storeInv(s) && s.broadcast != nil && s.metrics != nil && metricsOK(s)
//@            && s.metrics.matcherCompileIndexSilenceErrorsTotal != nil && s.logger != nil && s.retention >= 0
//@   assumes forall k string :: k in s.st ==> (len(s.st[k].Silence.MatcherSets) > 0 ==> s.st[k].Silence.MatcherSets[0] != nil)
//@   ensures [notfound] !old(id in s.st) ==> result == ErrNotFound && dom(s.st) == old(dom(s.st)) && vals(s.st) == old(vals(s.st))
//@   ensures [idempotent] let n = ret("nowUTC") in old(id in s.st) && old(stateAt(s.st[id].Silence, n)) == SilenceStateExpired
//@             ==> result == nil && dom(s.st) == old(dom(s.st)) && vals(s.st) == old(vals(s.st)) && !called("broadcast")
//@   ensures [others] forall k string :: k != id ==> (k in s.st) == old(k in s.st) && s.st[k] == old(s.st[k])
//@   ensures [kept] old(id in s.st) ==> id in s.st
//@   ensures [takes-effect] old(id in s.st) && result == nil && old(updAt(s, id)) < ret("nowUTC")
//@             ==> tsT(s.st[id].Silence.EndsAt) <= ret("nowUTC") && tsT(s.st[id].Silence.StartsAt) <= ret("nowUTC")
//@   ensures [history] old(id in s.st) && result == nil ==> s.st[id].Silence.Id == id && s.st[id].Silence.MatcherSets == old(s.st[id].Silence.MatcherSets)
//@             && (let n = ret("nowUTC") in old(stateAt(s.st[id].Silence, n)) == SilenceStateActive ==> s.st[id].Silence.StartsAt == old(s.st[id].Silence.StartsAt))
//@   ensures [inv] storeInv(s)
//@   assigns s.st[*], s.mi[*], s.vi, s.vi[*], s.version
//@   noeffect broadcast

// validation is string/regexp level and outside the verified subset: only its frame is used
//@ func validateSilence
//@   trusted
//@   assigns nothing
//@ func (*Silences).checkSizeLimits
//@   inline

// C12 (+ C18 limits): creating / editing a silence through the API.
//@ func (*Silences).Set
//@   props C12 C18
//@   requires s != nil && storeInv(s) && sil != nil && s.broadcast != nil && s.metrics != nil && metricsOK(s)
//@            && s.metrics.matcherCompileIndexSilenceErrorsTotal != nil && s.logger != nil && s.retention >= 0 && tracer != nil && ErrNotFound != nil
//@   requires forall k string :: k in s.st ==> s.st[k].Silence != sil
//@   assumes forall k string :: k in s.st ==> (len(s.st[k].Silence.MatcherSets) > 0 ==> s.st[k].Silence.MatcherSets[0] != nil)
//@   assumes len(sil.MatcherSets) > 0 ==> sil.MatcherSets[0] != nil
//@   after call Tracer).Start assume res1 != nil
//@   after call uuid.UUID).String assume !(res0 in s.st) && res0 != ""
//@   ensures [unknown-id] old(sil.Id) != "" && !old(sil.Id in s.st) ==> result != nil && dom(s.st) == old(dom(s.st)) && vals(s.st) == old(vals(s.st))
//@   ensures [rejected-before-mutation] result != nil && !called("setSilence") && !called(").expire") ==> dom(s.st) == old(dom(s.st)) && vals(s.st) == old(vals(s.st)) && s.version == old(s.version)
//@   at call ).expire assert [limits-before-expire] called("proto.Size") || s.limits.MaxSilenceSizeBytes == nil
//@   ensures [update-keeps-id] result == nil && called("canUpdate") && ret("canUpdate") ==> sil.Id == old(sil.Id) && dom(s.st) == old(dom(s.st))
//@             && (forall k string :: k != sil.Id ==> s.st[k] == old(s.st[k])) && tsT(sil.UpdatedAt) == first("nowUTC")
//@   ensures [create-fresh-id] result == nil && !(called("canUpdate") && ret("canUpdate")) ==> (let nid = sil.Id in !old(nid in s.st)) && sil.Id != ""
//@   ensures [create-stored] result == nil && !(called("canUpdate") && ret("canUpdate")) && tsT(sil.EndsAt) + s.retention >= first("nowUTC") ==> sil.Id in s.st && s.st[sil.Id].Silence == sil
//@   ensures [create-start-not-past] result == nil && !(called("canUpdate") && ret("canUpdate")) ==> tsT(sil.StartsAt) >= first("nowUTC") && tsT(sil.UpdatedAt) == first("nowUTC")
//@   ensures [others-untouched] forall k string :: k != old(sil.Id) && k != sil.Id ==> (k in s.st) == old(k in s.st) && s.st[k] == old(s.st[k])
//@   ensures [old-kept] forall k string :: old(k in s.st) ==> k in s.st
//@   ensures [replaced-is-expired] let id0 = old(sil.Id) in let n2 = ret("nowUTC") in
//@             result == nil && !(called("canUpdate") && ret("canUpdate")) && old(id0 in s.st) && old(stateAt(s.st[id0].Silence, n2)) != SilenceStateExpired && old(updAt(s, id0)) < n2
//@             ==> tsT(s.st[id0].Silence.EndsAt) <= n2 && s.st[id0].Silence.Id == id0 && s.st[id0].Silence.MatcherSets == old(s.st[id0].Silence.MatcherSets)
//@   ensures [max-silences] result == nil && called("MaxSilences") && ret("MaxSilences") > 0 && !(called("canUpdate") && ret("canUpdate")) ==> len(s.st) <= ret("MaxSilences")
//@   ensures [inv] storeInv(s)
//@   assigns s.st[*], s.mi[*], s.vi, s.vi[*], s.version, sil.*
//@   noeffect broadcast RecordEvent MaxSilences MaxSilenceSizeBytes

// C12: garbage collection. Only silences whose retention has passed (or whose expiry is unreadable) are removed;
// everything that stays is untouched, so pending and active silences (expiry = end + retention > now) survive.
//@ func (*Silences).GC
//@   props C12 C02
//@   requires s != nil && storeInv(s) && s.metrics != nil && metricsOK(s) && s.metrics.gcDuration != nil && s.metrics.gcErrorsTotal != nil
//@   ensures [only-expired] let n = ret("nowUTC") in forall k string :: old(k in s.st) && !(k in s.st)
//@             ==> old(s.st[k].ExpiresAt) == nil || tsT(old(s.st[k].ExpiresAt)) == 0 || tsT(old(s.st[k].ExpiresAt)) <= n
//@   ensures [kept-untouched] forall k string :: k in s.st ==> old(k in s.st) && s.st[k] == old(s.st[k])
//@   ensures [inv] storeInv(s) && s.st == old(s.st) && s.mi == old(s.mi) && s.version == old(s.version)
//@   loop 1 invariant s.st == old(s.st) && s.mi == old(s.mi) && storeInv(s) && s.version == old(s.version)
//@   loop 1 invariant let n = ret("nowUTC") in forall k string :: old(k in s.st) && !(k in s.st)
//@             ==> old(s.st[k].ExpiresAt) == nil || tsT(old(s.st[k].ExpiresAt)) == 0 || tsT(old(s.st[k].ExpiresAt)) <= n
//@   loop 1 invariant forall k string :: k in s.st ==> old(k in s.st) && s.st[k] == old(s.st[k])
//@   loop 1 invariant s.vi == old(s.vi) && len(targetVi) <= rangeindex + 1 && rangeindex < len(s.vi)
//@   assigns s.st[*], s.mi[*], s.vi, s.vi[*]

// ---- C11: snapshot files (same protocol as the notification log).
//@ func (*replaceFile).Close
//@   props C11
//@   nosafe
//@   at call os.Rename assert [rename-after-sync-and-close] called("os.File).Sync") && ret("os.File).Sync") == nil && called("os.File).Close") && ret("os.File).Close") == nil
//@   ensures [renamed-iff-ok] (result == nil) ==> called("os.Rename")
//@   ensures [sync-first] called("os.File).Close") ==> called("os.File).Sync") && ret("os.File).Sync") == nil
//@ func openReplace
//@   props C11
//@   nosafe
//@   ensures [fresh-truncated-temp-file] result1 == nil ==> called("os.Create") && ret1("os.Create") == nil && result0 != nil && result0.File == ret("os.Create") && result0.filename == filename
//@   ensures [target-untouched] !called("os.Rename") && !called("os.Remove")
//@   ensures [error-means-nothing] result1 != nil ==> result0 == nil
//@ func (*Silences).Maintenance$1
//@   props C11
//@   nosafe
//@   at call replaceFile).Close assert [rename-only-complete-snapshot] called("Silences).Snapshot") && ret1("Silences).Snapshot") == nil
//@   ensures [error-reported] called("Silences).Snapshot") && ret1("Silences).Snapshot") != nil ==> result1 != nil
//@   noeffect Silences).GC Silences).Snapshot openReplace replaceFile).Close

// C11: the on-disk form keeps the first matcher set in the legacy field as well; loading undoes it, upgrades
// records written in the legacy form, and leaves multi-set silences as they were.
//@ func prepareSilenceForMarshalling
//@   props C11
//@   assumes sil != nil && len(sil.MatcherSets) > 0 ==> sil.MatcherSets[0] != nil
//@   ensures [sets-untouched] sil != nil ==> sil.MatcherSets == old(sil.MatcherSets)
//@   ensures [legacy-mirror] sil != nil && len(sil.MatcherSets) > 0 ==> sil.Matchers == sil.MatcherSets[0].Matchers
//@   assigns sil.Matchers
//@ func postprocessUnmarshalledSilence
//@   props C11
//@   requires sil != nil
//@   ensures [legacy-cleared] len(sil.Matchers) == 0 && sil.Matchers == nil
//@   ensures [multi-set-untouched] old(len(sil.MatcherSets)) > 0 ==> sil.MatcherSets == old(sil.MatcherSets)
//@   ensures [legacy-upgraded] old(len(sil.MatcherSets)) == 0 && old(len(sil.Matchers)) > 0 ==> len(sil.MatcherSets) == 1 && sil.MatcherSets[0] != nil && sil.MatcherSets[0].Matchers == old(sil.Matchers)
//@   assigns sil.Matchers, sil.MatcherSets, sil.MatcherSets[*]

// C11/C02/C12: loading a snapshot installs exactly the decoded silences whose matchers compile, each filed under
// its id, listed in the version index and present in the matcher index - so that queries and garbage collection
// (which walk the indices) see every silence that is stored.
//@ func (*Silences).loadSnapshot
//@   props C11 C02 C12
//@   requires s != nil && s.metrics != nil && s.metrics.matcherCompileLoadSnapshotErrorsTotal != nil && s.logger != nil && metricsOK(s)
//@   after call decodeState assume forall k string :: k in res0 ==> (len(res0[k].Silence.Comments) > 0 ==> res0[k].Silence.Comments[0] != nil)
//@   ensures [error-installs-nothing] result != nil ==> s.st == old(s.st) && s.vi == old(s.vi) && s.mi == old(s.mi) && s.version == old(s.version)
//@   ensures [stored-are-listed] result == nil ==> (forall k string :: k in s.st ==> inVi(s.vi, k))
//@   ensures [stored-are-compiled] result == nil ==> (forall k string :: k in s.st ==> k in s.mi)
//@   ensures [well-formed] result == nil ==> (forall k string :: k in s.st ==> s.st[k] != nil && s.st[k].Silence != nil && s.st[k].Silence.Id == k)
//@   ensures [version-bumped] result == nil ==> s.version == old(s.version) + 1
//@   loop 1 invariant fresh(vi) && fresh(mi) && fresh(st) && mi != st
//@   loop 1 invariant forall k string :: k in st ==> pre(k in st)
//@   loop 1 invariant forall k string :: k in st ==> st[k] != nil && st[k].Silence != nil && st[k].Silence.Id == k
//@   loop 1 invariant forall k string :: k in visited && k in st ==> inVi(vi, k) && k in mi
//@   loop 1 invariant forall k string :: k in st ==> fresh(st[k].Silence) && (len(st[k].Silence.Comments) > 0 ==> st[k].Silence.Comments[0] != nil)
//@   assigns s.st, s.mi, s.vi, s.version
